#!/usr/bin/env python3
"""tools/automut.py <repo> <outdir> [stride] - mechanical first-order mutants of the library's non-test sources.

One change at one site each (relational / logical / boolean / integer-literal / break-continue / return-nil /
negation dropped / statement deleted), outside comments, string literals and struct tags.  Written as
<outdir>/<ID>/mNNNN/patch.diff (+ site.txt), <ID> being the property whose check looks at that file first.
tools/ptry.sh auto <outdir> <IDs> then classifies each: does not build / killed by the 95 tests / killed by a
check / SURVIVED.  The survivors are the interesting ones: either equivalent, or something no check sees.
"""
import difflib, hashlib, os, re, sys

repo, out = sys.argv[1], sys.argv[2]
stride = int(sys.argv[3]) if len(sys.argv) > 3 else 1

OWNER = [
    ("version/", "C01"), ("dependency/parser.go", "C04"), ("dependency/string.go", "C05"), ("dependency/arch.go", "C06"),
    ("dependency/dependency.go", "C06"), ("dependency/models.go", "C06"), ("control/parse.go", "C07"),
    ("control/encode.go", "C09"), ("control/decode.go", "C09"), ("control/dsc.go", "C10"), ("control/changes.go", "C10"),
    ("control/control.go", "C10"), ("control/index.go", "C10"), ("control/filehash.go", "C12"), ("hashio/", "C12"),
    ("deb/ar.go", "C13"), ("deb/deb.go", "C14"), ("deb/tarfile.go", "C14"), ("deb/sigcheck.go", "C16"),
    ("changelog/", "C17"), ("internal/copy.go", "C20"), ("internal/", "C20"), ("topsort/", "C19"),
]


def owner(rel):
    for pre, o in OWNER:
        if rel.startswith(pre):
            return o
    return "C18"


def mask(src):
    """same length as src; comments, string/rune literals and raw strings replaced by spaces (newlines kept)."""
    o, i, n = [], 0, len(src)
    while i < n:
        c = src[i]
        two = src[i:i + 2]
        if two == "//":
            j = src.find("\n", i)
            j = n if j < 0 else j
            o.append(" " * (j - i)); i = j
        elif two == "/*":
            j = src.find("*/", i + 2)
            j = n if j < 0 else j + 2
            o.append("".join(ch if ch == "\n" else " " for ch in src[i:j])); i = j
        elif c == '"' or c == "'":
            j = i + 1
            while j < n and src[j] != c:
                j += 2 if src[j] == "\\" else 1
            j = min(j + 1, n)
            o.append(" " * (j - i)); i = j
        elif c == "`":
            j = src.find("`", i + 1)
            j = n if j < 0 else j + 1
            o.append("".join(ch if ch == "\n" else " " for ch in src[i:j])); i = j
        else:
            o.append(c); i += 1
    return "".join(o)


RULES = [
    (r"==", "!="), (r"!=", "=="), (r"<=", "<"), (r">=", ">"),
    (r"(?<![<\-=!>])<(?![<\-=])", "<="), (r"(?<![<\-=!>])>(?![>=])", ">="),
    (r"&&", "||"), (r"\|\|", "&&"), (r"\btrue\b", "false"), (r"\bfalse\b", "true"),
    (r"\bbreak\b", "continue"), (r"\bcontinue\b", "break"),
    (r"\breturn err\b", "return nil"), (r"\breturn nil, err\b", "return nil, nil"),
    (r"if !", "if "), (r"\+ 1\b", "+ 2"), (r"- 1\b", "- 2"), (r"\+= ", "-= "), (r"\+\+", "--"),
]
INT = re.compile(r"(?<![\w.\"])(\d+)(?![\w.\"])")
STMT = re.compile(r"^\t+(?:[\w.\[\]\*]+(?:, [\w.\[\]\*]+)* (?:=|\+=|-=) .*|[\w.]+\([^{]*\)|defer .*|[\w.\[\]]+(?:\+\+|--))$")

count = 0
seen = 0
for root, dirs, files in os.walk(repo):
    dirs[:] = [d for d in dirs if d not in (".git", "vendor", "testdata")]
    for f in sorted(files):
        if not f.endswith(".go") or f.endswith("_test.go") or f == "doc.go":
            continue
        path = os.path.join(root, f)
        rel = os.path.relpath(path, repo)
        if rel.startswith("internal/test"):
            continue
        src = open(path).read()
        msk = mask(src)
        cands = []  # (offset, length, replacement, kind)
        for pat, rep in RULES:
            for m in re.finditer(pat, msk):
                cands.append((m.start(), m.end() - m.start(), rep, "%s -> %s" % (src[m.start():m.end()], rep)))
        for m in INT.finditer(msk):
            v = int(m.group(1))
            line_start = msk.rfind("\n", 0, m.start()) + 1
            if msk[line_start:m.start()].strip().startswith("case") and False:
                continue
            cands.append((m.start(1), len(m.group(1)), str(v + 1), "%d -> %d" % (v, v + 1)))
            if v > 0:
                cands.append((m.start(1), len(m.group(1)), str(v - 1), "%d -> %d" % (v, v - 1)))
        off = 0
        for line in src.split("\n"):
            ml = msk[off:off + len(line)]
            if STMT.match(ml.rstrip()) and not ml.strip().startswith("return"):
                cands.append((off, len(line), "\t" * (len(line) - len(line.lstrip("\t"))) + "_ = 0", "statement deleted: " + line.strip()[:80]))
            off += len(line) + 1
        cands.sort()
        for (o, l, rep, kind) in cands:
            seen += 1
            key = int(hashlib.sha1(("%s:%d:%s" % (rel, o, rep)).encode()).hexdigest(), 16)
            if key % stride != 0:
                continue
            new = src[:o] + rep + src[o + l:]
            if new == src:
                continue
            diff = "".join(difflib.unified_diff(src.splitlines(True), new.splitlines(True), "a/" + rel, "b/" + rel, n=3))
            count += 1
            d = os.path.join(out, owner(rel), "m%04d" % count)
            os.makedirs(d, exist_ok=True)
            open(os.path.join(d, "patch.diff"), "w").write("diff --git a/%s b/%s\n" % (rel, rel) + diff)
            lineno = src.count("\n", 0, o) + 1
            open(os.path.join(d, "site.txt"), "w").write("%s:%d  %s\n  %s\n" % (rel, lineno, kind, src.split("\n")[lineno - 1].strip()))
print("%d candidate sites, %d mutants written" % (seen, count))
