#!/bin/bash
# tools/runseeded.sh [ID-prefix]  — apply every seeded change to /repo in turn, run the
# quick check of its property, expect a VIOLATION; always revert. Prints one line each.
export GOFLAGS=-mod=mod GOPROXY=off GOSUMDB=off GOTOOLCHAIN=local
cd /verif
fail=0
for d in seeded/${1:-C}*/; do
  sid=$(basename $d); prop=${sid%%-*}
  [ -f $d/patch.diff ] || continue
  if [ -n "$(git -C /repo status --porcelain)" ]; then echo "REPO NOT CLEAN"; exit 9; fi
  if ! git -C /repo apply /verif/$d/patch.diff 2>/dev/null; then echo "$sid: PATCH DOES NOT APPLY to current /repo HEAD"; fail=1; continue; fi
  out=$(./check $prop quick 2>&1); rc=$?
  git -C /repo checkout -- . ; git -C /repo clean -fdq
  if [ $rc = 1 ] && echo "$out" | grep -q '^VIOLATION'; then echo "$sid: detected"; else echo "$sid: MISSED (rc=$rc)"; fail=1; fi
done
rm -rf /verif/replays
exit $fail
