#!/bin/bash
# tools/runseeded.sh [ID-prefix]  — apply every seeded change to /repo in turn, run the
# quick check of its property, expect a VIOLATION; always revert. Prints one line each.
export GOFLAGS=-mod=mod GOPROXY=off GOSUMDB=off GOTOOLCHAIN=local
cd /verif
fail=0
for d in seeded/${1:-C}*/; do
  sid=$(basename $d); prop=${sid%%-*}
  [ -f $d/patch.diff ] || continue
  if [ -n "$(git -C /repo status --porcelain)" ]; then echo "REPO NOT CLEAN"; exit 9; fi
  if ! git -C /repo apply /verif/$d/patch.diff 2>/dev/null; then echo "$sid: PATCH DOES NOT APPLY to current /repo HEAD"; fail=1; continue; fi
  # the checks named in meta.json's detected_by (first the property's own)
  ids=$(python3 -c "import json,re,sys;m=json.load(open('$d/meta.json'));print(' '.join(dict.fromkeys(re.findall(r'check (C[0-9]+)', m.get('detected_by','')))))")
  [ -z "$ids" ] && ids=$prop
  hit=""
  for id in $ids; do
    out=$(./check $id quick 2>&1); rc=$?
    if [ $rc = 1 ] && echo "$out" | grep -q '^VIOLATION'; then hit="$hit $id"; [ "${ALL:-0}" = 1 ] || break; fi
  done
  git -C /repo checkout -- . ; git -C /repo clean -fdq
  if [ -n "$hit" ]; then echo "$sid: detected by$hit"; else echo "$sid: MISSED (tried $ids)"; fail=1; fi
done
rm -rf /verif/replays
exit $fail
