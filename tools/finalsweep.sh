#!/bin/bash
# tools/finalsweep.sh — the closing runs: thorough tier (seed 1) for every claimed property, evidence kept under
# evidence-thorough/; then the quick tier at seeds 2 3 7 42 and last at seed 1 (so that evidence/<id>.json is the
# seed-1 quick run of the unpatched /repo); MANIFEST and evidence validated. Prints what is not HELD.
export GOFLAGS=-mod=mod GOPROXY=off GOSUMDB=off GOTOOLCHAIN=local
cd /verif; bad=0
mkdir -p evidence-thorough
for id in $(cat tools/BUILT); do
  s=$(date +%s); out=$(./check $id thorough 2>&1); rc=$?
  echo "thorough $id rc=$rc $(( $(date +%s)-s ))s $(echo "$out" | grep -v '^KNOWN-FINDING' | tail -1 | cut -c1-160)"
  [ $rc != 0 ] && { bad=1; echo "$out" | grep -v '^KNOWN-FINDING' | head -8 | cut -c1-300; }
  cp evidence/$id.json evidence-thorough/$id.json
done
for seed in 2 3 7 42 1; do VERIF_SEED=$seed tools/runall.sh || bad=1; done
python3 tools/mkmanifest.py && python3-vt tools/validate.py || bad=1
exit $bad
