#!/usr/bin/env python3
"""Regenerates /verif/MANIFEST.json from the table below.
A property is claimed iff props/cNN.go exists and it is listed in BUILT."""
import json, os, sys
V = os.path.dirname(os.path.dirname(os.path.abspath(__file__)))

# id: (level, technique, text, note)
T = {
 "C01": ("exploration", "runtime differential monitor: version.Compare vs independent reference comparator and real dpkg on bounded-exhaustive + random executions",
   "Every executed Compare call is watched by a run-based math/big reference comparator; a sample is also judged by dpkg --compare-versions and Dpkg::Version. Bounded-exhaustive over all strings <=2 (quick) / <=3 (thorough) on a class-complete alphabet in both parts, plus grammar-random and single-edit-near pairs. All version pairs of the installed dpkg database, 8-goroutine concurrent batches, and one case that parses and compares 3 (thorough 30) million different versions inside one process. Held-on-observed, not a proof: longer strings are sampled, not enumerated.",
   "trusts dpkg 1.21.22 as 'dpkg' and internal/model/vercmp.go (cross-checked against dpkg at run time)"),
 "C02": ("exploration", "runtime law monitor (reflexivity, antisymmetry, transitivity, congruence) over all triples of a version pool; sort monitor with counting sort.Interface wrapper",
   "Order laws are checked on every triple of a pool of versions (exhaustive over pool^3) and on sorted slices from several shuffles; no reference model is involved, so it stays valid even if C01's model were wrong.",
   "pool is finite (156 quick / 236 thorough versions incl. equivalence-class mates, tilde chains, 19-21 digit runs, huge epochs); plus 1 (thorough 12) million different pairs compared both ways round in one process"),
 "C03": ("exploration", "runtime parse differential against a grammar model + render/re-parse round-trip monitor on every accepted string",
   "Grammar-built strings must parse to their parts; listed invalid classes must be rejected; every accepted string must survive String/MarshalControl/MarshalText/json round trips. Results handed out must stay the caller's (marshalled text kept across calls, buffers not retained); 3 (30) million different texts parsed in one process; versions of the installed dpkg database. Thorough adds coverage-guided native fuzzing with the round-trip oracle.",
   "grammar model from Policy 5.6.12"),
 "C04": ("exploration", "runtime AST->text->Parse differential monitor with slot x whitespace-atom spacing matrix",
   "Dependency ASTs (bounded-exhaustive small shapes, random large ones) are rendered by an independent renderer with every legal spacing and group order and the parse result is compared structurally; listed malformed classes must be rejected with no result.",
   "legality of spacing taken from Policy 7.1/5.1 and Dpkg::Deps (thorough self-check)"),
 "C05": ("exploration", "runtime fix-point monitor on every accepted dependency string and architecture name",
   "For every accepted input: render, re-parse, compare normalised structures, render again; exhaustive over 1..4-part architecture names from a token pool; the caller edits an earlier result in place and parses again; 150 000 (3 million) different fields in one process; relationship fields of the installed dpkg database; 8-goroutine concurrent batches. Thorough adds native fuzzing.",
   "normalisation: nil == empty, relations without possibilities dropped"),
 "C06": ("exploration", "runtime truth-table monitor against a set-theoretic architecture model and the reference comparator",
   "Exhaustive over the 4-valued component abstraction (all concrete x pattern pairs both ways), all short arch lists x negation, ASTs x architectures for GetPossibilities, operator x sign table for SatisfiedBy.",
   "abstraction is exhaustive up to renaming because matching only tests equality with any/all"),
 "C07": ("exploration", "runtime deb822 model differential over four access paths and several reader chunkings + paragraph invariant monitor on arbitrary bytes",
   "Generated documents are read via Next/All/Unmarshal-slice/Decoder.Decode through string, one-byte, chunked and data-with-EOF readers and compared with an independent line model; the keys(Values)==set(Order) invariant is monitored on corrupted and raw inputs (thorough: native fuzzing). Also: typed access paths, streams of 36-300 MiB, sources that fail once and continue, Set on every returned paragraph, 400 000 (1.5 million) different field names read in one process, the dpkg database and 516 DEP-5 files, 8-goroutine concurrent batches.",
   "independent 40-line reference reader"),
 "C08": ("exploration", "runtime write->read monitor, output-line invariant scanner and multi-cycle growth monitor",
   "Paragraphs from line sequences (incl. lines over 4 KiB) are written and read back, the written bytes are scanned for blank lines, documents are cycled 4 times, encoder call sequences (struct, pointer, slice, empty slice, all-omitted struct) are counted. Thorough adds a native fuzz target on the cycle.",
   "values with an empty first line followed by more lines are excluded (see DESIGN C08) and pinned as known findings"),
 "C09": ("exploration", "reflective marshal/unmarshal round-trip monitor on probe structs; pass-through key-order model",
   "A reflection-driven generator fills probe structs covering each kind x tag combination; Marshal->Unmarshal must be identity, omitted/required rules (also inside a slice of paragraphs) and unknown-field pass-through are checked; the same round trip through ConvertToParagraph/UnpackFromParagraph with the converted paragraph checked for well-formedness; variables reused for the next paragraph; Marshal to writers that break down part-way.",
   "probe struct family declared in the harness"),
 "C10": ("exploration", "model -> real Debian layout -> typed parser; reflective comparison of every exported field with an independent denotation table",
   "Per document kind a model is rendered in real layout (folded lists, checksum blocks) and the typed struct is compared field-by-field by Go field name; all struct fields must have been compared at least once. Every case starts with a tiny .changes, .dsc and Sources document decoded in a seed-chosen order (process history across kinds); file entry points also through relative paths and symbolic links; the decoded value is re-compared after all accessors were called.",
   "denotation table in the harness; dpkg tools as second producers in thorough"),
 "C11": ("fault_enumeration", "tamper enumeration on clearsigned documents with a differential decode+verify oracle",
   "Every byte offset x edit kind, truncations and splices on signed documents; the library must succeed iff an independent clearsign.Decode+CheckDetachedSignature succeeds, with paragraphs equal to the model parse of the verified bytes and the right signer.",
   "trusts golang.org/x/crypto/openpgp"),
 "C12": ("exploration", "stream/chunking differential against stdlib digests; verifier truth table in journaled child processes",
   "Hashing writers/readers are driven with all subsets of algorithms and many chunkings; verifier accept/reject is compared with digests computed directly; process exit inside Verifier is attributed by the in-flight journal. Digests handed out in mid-stream must stay unchanged, a second Close must not fail a matching stream; thorough pushes 2^31+ and 2^32+ bytes through one hasher.",
   "crypto/{md5,sha1,sha256,sha512}"),
 "C13": ("exploration", "ar member-list model differential + counting ReaderAt offset monitor",
   "Generated archives are iterated; metadata, bytes (also after the iterator advanced, via Seek and ReadAt) and header read offsets are compared with the model; sparse archives of 2-9 GiB; a nested archive opened through a member reader after the caller sniffed its magic; 8-goroutine concurrent batches.",
   "harness ar writer"),
 "C14": ("exploration", "package model x 6x6 codec configurations (+ real dpkg-deb) differential",
   "All control x data compression combinations, control position variants, extras; Control fields, extensions, member index and data tar listing compared with the model; repeated loads agree (16 loads when a member is named data or control without extension); rejected packages also through LoadFile; symbolic links; header reads that fail once.",
   "xz/bzip2/lzma CLIs, klauspost zstd and kjk lzma encoders, dpkg-deb as producers"),
 "C15": ("exploration", "step-bound, header-magic, size/delivery and determinism monitors on hostile bytes via a counting ReaderAt",
   "Structured corruption of valid archives (every header column, every truncation offset, duplicates) with a hard logical step bound of len/60+1 header reads; thorough adds native fuzzing.",
   "third-party xz/lzma/bz2/zstd decoders excluded as the property says"),
 "C16": ("fault_enumeration", "corruption/decoy enumeration with differential verification over the members the loader exposed; range-logging ReaderAt",
   "Every byte of the signed members and the signature is flipped; decoy control.*/data.* members and near-miss names (data-old.tar, xcontrol.tar) are inserted at every position and each archive is loaded 40 times because member choice iterates a Go map; what the loader exposed (control paragraph, payload listing, extensions) is compared with the signed members; sequences of checks (good keyring, unrelated, empty, absent/prefix roles, good again) run on one loaded Deb.",
   "trusts golang.org/x/crypto/openpgp"),
 "C17": ("fault_enumeration", "changelog entry-list model differential + every-prefix truncation monitor",
   "Generated changelogs must parse to the model; every prefix must give either an error or exactly the entries complete in it. The process time zone varies per case (fixed zones and zones with daylight saving); FIFOs, one-byte and failing sources; the 707 installed changelog.Debian.gz files against dpkg-parsechangelog.",
   "entry-list model; dpkg-parsechangelog validates the generator in thorough"),
 "C18": ("exploration", "panic/fatal/CPU-budget/determinism monitors on hostile inputs; Go race detector on concurrent calls",
   "All parser entry points (and the accessors derived from typed documents) are driven with generator outputs and mutants; value-xor-error, repeat determinism, receiver-reuse and result-aliasing independence, and 16-goroutine concurrent determinism (concurrent round first, on never-seen names) are checked in a -race build whose report blocks are counted; a non-returning call is cut by a per-case stall watchdog and confirmed under a 60 s CPU limit. Thorough adds a native fuzz target.",
   "hang = no return within 60 CPU-seconds on one <=64KiB input"),
 "C19": ("exploration", "graph-level order monitor against a model effective-edge graph",
   "Random acyclic/cyclic build-dependency graphs rendered as multi-binary .dsc text; any topological order of the model's effective edges is accepted, cycles must error, repeated runs agree.",
   "model edge = first non-substvar alternative admitted for the architecture"),
 "C20": ("fault_enumeration", "inotify order monitor, tree snapshots, environmental and strace-injected syscall faults",
   "Copy/Move/Remove on .dsc/.changes with k referenced files; a failure is injected at each file and at the control file (missing source, occupied/missing destination, RLIMIT_FSIZE cut of the control-file copy, fresh and pre-populated destinations); inotify event order, pre/post tree hashes, hostile listed names (also only in checksum fields; also the bare . and ..), destinations spelled d/, d/. and d/sub/.., relative paths under another working directory, a control file reached through a symbolic link, GOMAXPROCS(1) and second operations on the same handle are checked. Thorough adds an strace dry-run order/path monitor and copy_file_range/rename/unlink failures at every index.",
   "Linux inotify/strace semantics"),
}

built = [l.strip() for l in open(os.path.join(V, "tools", "BUILT")).read().split() if l.strip()]
checks, na = [], []
for pid in sorted(T):
    level, tech, text, note = T[pid]
    if pid in built:
        checks.append({
            "property_id": pid,
            "quick_cmd": f"./check {pid} quick",
            "thorough_cmd": f"./check {pid} thorough",
            "evidence_file": f"/verif/evidence/{pid}.json",
            "replay_cmd_template": f"./check {pid} --replay {{path}}",
            "engine": "vcheck",
            "level_claimed": {"category": level, "text": text, "design_ref": f"DESIGN.md §4 {pid}"},
            "level_note": note,
            "technique": tech,
        })
    else:
        na.append({"property_id": pid, "reason": "check not built yet in this round (runtime monitor designed in DESIGN.md §4 " + pid + "); not claimed until its monitor exists and is silent on the unchanged tree"})
hooks_commits = [l.strip() for l in open(os.path.join(V, "tools", "HOOK_COMMITS")).read().split()] if os.path.exists(os.path.join(V, "tools", "HOOK_COMMITS")) else []
m = {
 "version": 1,
 "setup_cmd": "./setup.sh",
 "hooks": {
   "guard": "verif",
   "enable": "go build -tags verif (the harness module replaces pault.ag/go/debian with /repo); no hook is currently needed: all observation happens at the API boundary (io.ReaderAt/io.Reader/io.Writer wrappers, inotify, strace)",
   "baseline_off_cmd": "cd /repo && GOFLAGS=-mod=mod GOPROXY=off GOSUMDB=off GOTOOLCHAIN=local go test -vet=off -count=1 ./...",
   "source_commits": hooks_commits,
   "add_only": True,
 },
 "engines": [{"name": "vcheck", "path": "/verif/cmd/vcheck", "serves_properties": built,
              "kind_free_text": "Go driver/worker harness: generated, hostile and fault-injected workloads executed against the real library in journaled child processes, watched by reference-model, invariant and law monitors; -race workers; native fuzzing and strace/inotify in the thorough tier"}],
 "checks": checks,
 "not_applicable": na,
 "notes": "exit codes: 0 held on everything observed, 1 VIOLATION (replay file printed), 2 INCONCLUSIVE (harness could not decide; never folded into held). Known findings: /verif/KNOWN_FINDINGS.txt.",
}
json.dump(m, open(os.path.join(V, "MANIFEST.json"), "w"), indent=1)
print("claimed:", " ".join(built), "| not claimed:", " ".join(x["property_id"] for x in na))
