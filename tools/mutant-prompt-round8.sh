#!/bin/bash
# usage: prompt.sh C01  -> prints the agent prompt
ID=$1
cat <<P
You are testing how robust a Go library is against subtle regressions. The library is paultag/go-debian (Go module pault.ag/go/debian: Debian control files, dependency relations, dpkg version comparison, changelogs, .deb/ar reading). You have your OWN scratch git worktree of it at /tmp/mut/$ID (work ONLY there; never touch /repo or /verif, and do not read anything under /verif).

Every shell call needs: export GOFLAGS=-mod=mod GOPROXY=off GOSUMDB=off GOTOOLCHAIN=local   (the sandbox is offline; env does not persist between calls). Run the existing tests with: cd /tmp/mut/$ID && go test -vet=off -count=1 ./...

Here is a semantic property the library is supposed to satisfy:

$(cat /tmp/mut/$ID.prop.txt)

TASK: produce FOUR different, independent code changes ("mutants") to the library's non-test source, each of which
  (a) still compiles, and the existing test suite (go test ./...) still passes completely with it,
  (b) breaks the property above for SOME inputs/sequences, but
  (c) needs something specific to manifest - an unusual input shape, a multi-step sequence, a particular combination of features, a boundary value, two cooperating sites that each look fine alone - NOT something ordinary use would expose at once. Think of a realistic bug a developer could introduce in a refactoring or "optimisation" or "cleanup", in the code that implements this property. The four mutants should differ in kind (different function / different mechanism / different triggering condition), and should range from moderately subtle to very subtle.
  Do not edit or add *_test.go files in the library and do not change exported API signatures.

For each mutant k in 1..4 create the directory /tmp/mut/out8/$ID/m\$k containing:
  - patch.diff : the change as 'git diff' output relative to the worktree's HEAD (must apply with 'git apply' to a clean checkout of the same commit),
  - demo_test.go : a Go test file (package of your choice inside the module, say which directory it goes in on the first comment line as '// dir: <relative package dir>') with ONE test that FAILS with the mutant applied and PASSES on the unmodified code; it should demonstrate the property violation at the public API level,
  - notes.md : 5-10 lines: what the change is, why existing tests do not notice, what exactly is needed for it to manifest.
Workflow per mutant: start from a clean tree (git checkout -- . && git clean -fdq), make the change, run the full existing test suite (must pass), write the demo test into the package dir, run it (must FAIL), save the output of "git diff" to patch.diff BEFORE adding the demo file, then revert the change (git checkout -- .) and confirm that the demo test PASSES on the unmodified code, then move the demo file into /tmp/mut/out8/$ID/m\$k/ and clean the tree again.
Finish with the worktree clean (git status shows nothing). The output directory /tmp/mut/out8/$ID is OUTSIDE the worktree on purpose. In your final message list the four mutants in one line each.
P
cat <<P2

ADDITIONAL GUIDANCE for this round: make each change an OFF-BY-ONE or BOUNDARY mistake - the code is right in the middle of every range and wrong exactly at an edge. Think of: the first and the last element of a list, line, field, member or file (and the one before the last); collections with zero, one or exactly two elements; empty strings, empty lines, empty values, empty files and zero-length members; a value that fills its column or buffer exactly (16-byte names, 10-digit sizes, 12-digit timestamps, 4096-, 32768- and 65536-byte lines, blocks and read buffers, one byte less and one byte more); the largest and smallest representable numbers and one beyond (int32, uint32, int64, uint64, 0, -0, leading zeros); a separator, terminator, padding byte, newline or blank at the very beginning or the very end of the input, doubled, or missing at the end; input that ends exactly at a boundary (after a header, after a blank line, in front of the final newline); the first call versus later calls; equal elements and ties; '<' versus '<=', 'len(x)-1', 'i+1 < n', '[:n]' versus '[:n-1]', inclusive versus exclusive ends, an index that is also a count. Every change must be wrong ONLY at such an edge and right everywhere else, must look like a plausible clean-up of a loop or slice expression, and none may be noticed by calling the main entry point once with a typical input. Each of the four must touch a DIFFERENT function.
P2
