#!/bin/bash
# tools/trymut.sh <patch.diff> <ID> [<ID>...]  — apply a seeded change to /repo, run the
# given quick checks, always revert. Prints one line per check.
export GOFLAGS=-mod=mod GOPROXY=off GOSUMDB=off GOTOOLCHAIN=local
P="$1"; shift
if [ -n "$(git -C /repo status --porcelain)" ]; then echo "REPO NOT CLEAN"; exit 9; fi
if ! git -C /repo apply "$P"; then echo "PATCH DOES NOT APPLY: $P"; exit 8; fi
trap 'git -C /repo checkout -- . ; git -C /repo clean -fdq' EXIT
if [ "${SKIPTESTS:-0}" != 1 ]; then
  if ( cd /repo && go build ./... && go test -vet=off -count=1 ./... >/tmp/trymut.test.log 2>&1 ); then echo "suite: pass"; else echo "suite: FAIL"; tail -5 /tmp/trymut.test.log; fi
fi
for id in "$@"; do
  out=$(cd /verif && ./check $id ${TIER:-quick} 2>&1); rc=$?
  echo "$id rc=$rc $(echo "$out" | grep -c '^VIOLATION') violation lines; first: $(echo "$out" | grep -v '^VIOLATION' | head -2 | cut -c1-260 | tr '\n' ' ')"
done
