#!/bin/bash
# tools/ptry.sh mut|eq <outdir> <ID>... — parallel triage of seeded changes in scratch worktrees
# (never in /repo): LANES (default 4) worktrees /tmp/mut/lane<k> of /repo's HEAD; every change
# <outdir>/<ID>/{m,e}K is applied in a lane and checked with VERIF_REPO=<lane> ./check ...
#   mut: the property's own quick check; if it stays silent, every other check   -> "detected by" / "MISSED BY ALL"
#   auto: like mut, for the mechanical mutants of tools/automut.py: first build and the 95 tests
#   eq : every quick check; anything but HELD is a candidate false alarm          -> "silent" / "ALARMS: ..."
export GOFLAGS=-mod=mod GOPROXY=off GOSUMDB=off GOTOOLCHAIN=local
MODE="$1"; OUT="$2"; shift 2
LANES=${LANES:-4}
# work from a snapshot of /verif, so that edits made to the harness while the lanes run do not reach them
SNAP=/tmp/verif-snap.$$
rm -rf $SNAP; mkdir -p $SNAP
rsync -a --exclude .build --exclude .work --exclude replays --exclude .git --exclude evidence /verif/ $SNAP/
export SNAP
cd $SNAP
mkdir -p /tmp/eqlogs
for k in $(seq 1 $LANES); do
  git -C /repo worktree remove --force /tmp/mut/lane$k 2>/dev/null; rm -rf /tmp/mut/lane$k
  git -C /repo worktree add --detach -q /tmp/mut/lane$k ${BASE:-HEAD} || exit 1
done
job() {
  MODE="$1"; d="$2"; id="$3"
  m=$(basename $d)
  # find a free lane
  while :; do
    for k in $(seq 1 $LANES); do
      if mkdir /tmp/mut/lane$k.lock 2>/dev/null; then L=/tmp/mut/lane$k; break 2; fi
    done
    sleep 0.5
  done
  trap 'git -C $L checkout -q -- . ; git -C $L clean -fdq; rmdir $L.lock' RETURN
  if ! git -C $L apply $d/patch.diff 2>/dev/null; then echo "$id/$m: PATCH DOES NOT APPLY"; return; fi
  if [ $MODE = auto ]; then
    # mechanical mutants (tools/automut.py): most do not build or are killed by the 95 tests
    if ! ( cd $L && go build ./... ) >/dev/null 2>&1; then echo "$id/$m: does-not-build"; return; fi
    if ! ( cd $L && timeout 300 go test -vet=off -count=1 ./... ) >/dev/null 2>&1; then echo "$id/$m: killed-by-suite"; return; fi
    MODE=mut
  fi
  suite=pass
  ( cd $L && go build ./... && go test -vet=off -count=1 ./... ) >/dev/null 2>&1 || suite=FAIL
  if [ $MODE = mut ]; then
    hit=""
    out=$(VERIF_REPO=$L ./check $id quick 2>&1); rc=$?
    if [ $rc = 1 ] && echo "$out" | grep -q '^VIOLATION'; then hit="$id"; fi
    if [ -z "$hit" ]; then
      for o in $(cat tools/BUILT); do
        [ $o = $id ] && continue
        out=$(VERIF_REPO=$L ./check $o quick 2>&1); rc=$?
        if [ $rc = 1 ] && echo "$out" | grep -q '^VIOLATION'; then hit="$hit $o"; fi
      done
      [ -n "$hit" ] && hit="(own check missed) siblings:$hit"
    fi
    if [ -n "$hit" ]; then echo "$id/$m: suite=$suite detected by $hit"; else echo "$id/$m: suite=$suite MISSED BY ALL"; fi
  else
    alarms=""
    for o in $(cat tools/BUILT); do
      out=$(VERIF_REPO=$L ./check $o quick 2>&1); rc=$?
      if [ $rc != 0 ]; then alarms="$alarms $o(rc=$rc)"; echo "$out" | grep -v '^VIOLATION' | head -14 | cut -c1-700 > /tmp/eqlogs/$id.$m.$o.log; fi
    done
    if [ -n "$alarms" ]; then echo "$id/$m: suite=$suite ALARMS:$alarms"; else echo "$id/$m: suite=$suite silent"; fi
  fi
}
export -f job
export LANES
for id in "$@"; do
  for d in $OUT/$id/[me]*/; do
    [ -f $d/patch.diff ] && echo "$MODE $d $id"
  done
done | xargs -P $LANES -L 1 bash -c 'job "$0" "$1" "$2"'
for k in $(seq 1 $LANES); do git -C /repo worktree remove --force /tmp/mut/lane$k 2>/dev/null; rmdir /tmp/mut/lane$k.lock 2>/dev/null; done
git -C /repo worktree prune
rm -rf $SNAP
