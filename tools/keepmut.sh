#!/bin/bash
# tools/keepmut.sh <srcdir with patch.diff demo_test.go notes.md> <seeded-id> <property> "<needs>" "<caught-by text>"
# Confirms in a scratch worktree (suite passes with the patch; demo fails with it and passes without), then stores under /verif/seeded/<seeded-id>/.
export GOFLAGS=-mod=mod GOPROXY=off GOSUMDB=off GOTOOLCHAIN=local
SRC="$1"; SID="$2"; PROP="$3"; NEEDS="$4"; CAUGHT="$5"
W=/tmp/mut/confirm
git -C /repo worktree remove --force $W 2>/dev/null; rm -rf $W
git -C /repo worktree add --detach -q $W HEAD || exit 1
trap 'git -C /repo worktree remove --force $W' EXIT
DIR=$(head -5 "$SRC/demo_test.go" | sed -n 's#^// dir: *##p' | head -1 | tr -d ' \r')
[ -z "$DIR" ] && { echo "no // dir: line"; exit 2; }
cd $W
cp "$SRC/demo_test.go" "$DIR/zz_demo_test.go"
if ! go test -vet=off -count=1 "./$DIR" >/tmp/keep.clean.log 2>&1; then echo "demo FAILS on clean tree"; tail -5 /tmp/keep.clean.log; exit 3; fi
rm "$DIR/zz_demo_test.go"
git apply "$SRC/patch.diff" || { echo "patch does not apply"; exit 4; }
if ! ( go build ./... && go test -vet=off -count=1 ./... ) >/tmp/keep.suite.log 2>&1; then echo "suite FAILS with patch"; tail -5 /tmp/keep.suite.log; exit 5; fi
cp "$SRC/demo_test.go" "$DIR/zz_demo_test.go"
if go test -vet=off -count=1 "./$DIR" >/tmp/keep.mut.log 2>&1; then echo "demo PASSES with patch (not a demonstration)"; exit 6; fi
D=/verif/seeded/$SID; mkdir -p $D
cp "$SRC/patch.diff" "$SRC/demo_test.go" $D/
[ -f "$SRC/notes.md" ] && cp "$SRC/notes.md" $D/
python3 - "$D" "$PROP" "$NEEDS" "$CAUGHT" "$DIR" "$(git -C /repo rev-parse --short HEAD)" <<'PY'
import json,sys
d,prop,needs,caught,dir_,head=sys.argv[1:7]
json.dump({"property":prop,"breaks":prop,"needs_to_manifest":needs,"demo":{"file":"demo_test.go","package_dir":dir_},
 "confirmed":{"base_commit":head,"ran":["git apply patch.diff in a scratch worktree of /repo","go build ./... && go test -vet=off -count=1 ./...  -> pass with the patch","go test ./%s with demo_test.go -> FAIL with the patch, PASS without"%dir_]},
 "detected_by":caught},open(d+"/meta.json","w"),indent=1)
PY
echo "kept $SID"
