#!/bin/bash
# usage: prompt.sh C01  -> prints the agent prompt
ID=$1
cat <<P
You are testing how robust a Go library is against subtle regressions. The library is paultag/go-debian (Go module pault.ag/go/debian: Debian control files, dependency relations, dpkg version comparison, changelogs, .deb/ar reading). You have your OWN scratch git worktree of it at /tmp/mut/$ID (work ONLY there; never touch /repo or /verif, and do not read anything under /verif).

Every shell call needs: export GOFLAGS=-mod=mod GOPROXY=off GOSUMDB=off GOTOOLCHAIN=local   (the sandbox is offline; env does not persist between calls). Run the existing tests with: cd /tmp/mut/$ID && go test -vet=off -count=1 ./...

Here is a semantic property the library is supposed to satisfy:

$(cat /tmp/mut/$ID.prop.txt)

TASK: produce FOUR different, independent code changes ("mutants") to the library's non-test source, each of which
  (a) still compiles, and the existing test suite (go test ./...) still passes completely with it,
  (b) breaks the property above for SOME inputs/sequences, but
  (c) needs something specific to manifest - an unusual input shape, a multi-step sequence, a particular combination of features, a boundary value, two cooperating sites that each look fine alone - NOT something ordinary use would expose at once. Think of a realistic bug a developer could introduce in a refactoring or "optimisation" or "cleanup", in the code that implements this property. The four mutants should differ in kind (different function / different mechanism / different triggering condition), and should range from moderately subtle to very subtle.
  Do not edit or add *_test.go files in the library and do not change exported API signatures.

For each mutant k in 1..4 create the directory /tmp/mut/out7/$ID/m\$k containing:
  - patch.diff : the change as 'git diff' output relative to the worktree's HEAD (must apply with 'git apply' to a clean checkout of the same commit),
  - demo_test.go : a Go test file (package of your choice inside the module, say which directory it goes in on the first comment line as '// dir: <relative package dir>') with ONE test that FAILS with the mutant applied and PASSES on the unmodified code; it should demonstrate the property violation at the public API level,
  - notes.md : 5-10 lines: what the change is, why existing tests do not notice, what exactly is needed for it to manifest.
Workflow per mutant: start from a clean tree (git checkout -- . && git clean -fdq), make the change, run the full existing test suite (must pass), write the demo test into the package dir, run it (must FAIL), save the output of "git diff" to patch.diff BEFORE adding the demo file, then revert the change (git checkout -- .) and confirm that the demo test PASSES on the unmodified code, then move the demo file into /tmp/mut/out7/$ID/m\$k/ and clean the tree again.
Finish with the worktree clean (git status shows nothing). The output directory /tmp/mut/out7/$ID is OUTSIDE the worktree on purpose. In your final message list the four mutants in one line each.
P
cat <<P2

ADDITIONAL GUIDANCE for this round: make each change one of the classic GO LANGUAGE PITFALLS, the kind that survives review because the diff reads as an innocent tidy-up: a slice that aliases another one (append onto a sub-slice or onto a slice handed in by / returned to the caller, re-slicing a shared backing array, a buffer reused across iterations while an earlier result still points into it); taking the address of, or capturing in a closure, something that changes afterwards; a value receiver or a struct copy where the original was meant to be updated (or the reverse); a shadowed variable (err or a result re-declared with := inside an if/for so that the outer one stays unset); defer inside a loop or defer evaluating its arguments early; results that depend on map iteration order; integer conversions that truncate or change sign (int/uint/int32/int64, len() arithmetic going negative, byte(x)); strings handled per byte where runes matter or per rune where bytes matter (range over string, ToLower/ToUpper/TrimFunc on non-ASCII, len vs RuneCount, invalid UTF-8 turned into U+FFFD); a nil map / nil slice / empty-but-non-nil distinction; a typed nil in an interface; switch fallthrough/missing default; label-less break inside select/switch inside for; strings.Split vs SplitN vs Fields vs Cut differences on empty or repeated separators; Trim (cutset) vs TrimSuffix/TrimPrefix; bufio.Scanner's token limit and reused token buffer. Use at least four different ones of these across your four changes. As before: each change must look like a plausible maintenance patch, the existing tests must still pass, each of the four must touch a DIFFERENT function, and none may be noticed by calling the main entry point once with a typical input.
P2
