#!/bin/bash
# tools/keepround.sh <outdir> <tag e.g. r4> <ptry-log> <ID>... — keep every triaged mutant of a round as
# seeded/<ID>-<tag>mK (confirmation in a scratch worktree by tools/keepmut.sh); "detected by" comes from the
# ptry log, "needs" from the mutant's notes. Mutants the log marks MISSED BY ALL are skipped.
OUT="$1"; TAG="$2"; LOG="$3"; shift 3
cd /verif
for id in "$@"; do
  for src in $OUT/$id/m*/; do
    k=$(basename $src); k=${k#m}
    [ -f $src/patch.diff ] || continue
    line=$(grep "^$id/m$k:" "$LOG" | tail -1)
    case "$line" in
      *"MISSED BY ALL"*|"") echo "$id/m$k: not kept ($line)"; continue;;
      *"own check missed"*) det="./check $(echo "$line" | sed 's/.*siblings: *//; s/ .*//') quick (the property's own check does not see it: $(echo "$line" | sed 's/.*siblings: *//'))";;
      *) det="./check $id quick";;
    esac
    needs=$(python3 - $src/notes.md <<'PY'
import sys,re
t=open(sys.argv[1]).read()
paras=[p.strip() for p in re.split(r'\n\s*\n|\n- ',t) if p.strip()]
pick=[p for p in paras if re.search(r'(?i)needed|to manifest|manifest|trigger|shows only|needs',p)]
s=(pick[0] if pick else paras[-1])
s=re.sub(r'\s+',' ',s)
s=re.sub(r'^(\*\*)?(What is needed to manifest|To manifest|Needed|What is needed|Needs to manifest|What it needs to manifest|Trigger)(\*\*)?\s*[:.-]?\s*(\*\*)?\s*','',s,flags=re.I)
s=re.sub(r'^[-*#\s]+','',s)
if len(s)>260: s=s[:257].rsplit(' ',1)[0]+'...'
print(s)
PY
)
    tools/keepmut.sh $src $id-${TAG}m$k $id "$needs" "$det" 2>&1 | tail -1
  done
done
