#!/bin/bash
# tools/runall.sh [tier] — run every claimed check once; print only what is not HELD.
export GOFLAGS=-mod=mod GOPROXY=off GOSUMDB=off GOTOOLCHAIN=local
cd /verif; bad=0
for id in $(cat tools/BUILT); do
  out=$(./check $id ${1:-quick} 2>&1); rc=$?
  if [ $rc != 0 ]; then bad=1; echo "== $id rc=$rc"; echo "$out" | grep -v '^KNOWN-FINDING' | head -6 | cut -c1-300; fi
done
[ $bad = 0 ] && echo "all HELD (seed ${VERIF_SEED:-1})"
exit $bad
