#!/bin/bash
# tools/tryequiv.sh <outdir> <ID>... — for every property-preserving change <outdir>/<ID>/eK: apply to
# /repo, run the suite and EVERY quick check; any VIOLATION / non-zero exit is a candidate false alarm
# (to be adjudicated by hand: either the change does break a property, or the check is too strict).
export GOFLAGS=-mod=mod GOPROXY=off GOSUMDB=off GOTOOLCHAIN=local
OUT="$1"; shift
cd /verif
mkdir -p /tmp/eqlogs
for id in "$@"; do
  for d in $OUT/$id/e*/; do
    m=$(basename $d)
    [ -f $d/patch.diff ] || continue
    if [ -n "$(git -C /repo status --porcelain)" ]; then echo "REPO NOT CLEAN"; exit 9; fi
    if ! git -C /repo apply $d/patch.diff 2>/dev/null; then echo "$id/$m: PATCH DOES NOT APPLY"; continue; fi
    suite=pass
    ( cd /repo && go build ./... && go test -vet=off -count=1 ./... ) >/dev/null 2>&1 || suite=FAIL
    alarms=""
    for o in $(cat tools/BUILT); do
      out=$(./check $o quick 2>&1); rc=$?
      if [ $rc != 0 ]; then alarms="$alarms $o(rc=$rc)"; echo "$out" | grep -v '^VIOLATION' | head -12 | cut -c1-600 > /tmp/eqlogs/$id.$m.$o.log; fi
    done
    git -C /repo checkout -- . ; git -C /repo clean -fdq
    if [ -n "$alarms" ]; then echo "$id/$m: suite=$suite ALARMS:$alarms"; else echo "$id/$m: suite=$suite silent"; fi
  done
done
rm -rf /verif/replays
