#!/bin/bash
# usage: equiv-prompt.sh C01  -> prints the prompt for a "property-preserving change" agent
ID=$1
cat <<P
You are helping to validate a verification harness for a Go library: we need realistic code changes that do NOT break a given property, to make sure the harness raises no false alarm on them. The library is paultag/go-debian (Go module pault.ag/go/debian: Debian control files, dependency relations, dpkg version comparison, changelogs, .deb/ar reading). You have your OWN scratch git worktree of it at /tmp/mut/eq3-$ID (work ONLY there; never touch /repo or /verif, and do not read anything under /verif).

Every shell call needs: export GOFLAGS=-mod=mod GOPROXY=off GOSUMDB=off GOTOOLCHAIN=local   (the sandbox is offline; env does not persist between calls). Run the existing tests with: cd /tmp/mut/eq3-$ID && go test -vet=off -count=1 ./...

Here is a semantic property the library satisfies today and must still satisfy after each of your changes:

$(cat /tmp/mut/$ID.prop.txt)

TASK: produce FOUR different, independent code changes to the library's non-test source in the code that implements this property. Each change must
  (a) compile, and the existing test suite (go test ./...) must still pass completely,
  (b) keep the property above TRUE for every input, sequence, reader and schedule it quantifies over - read the statement carefully and literally; if in doubt whether the statement still holds, pick another change,
  (c) nevertheless change the implementation or its UNSPECIFIED behaviour as much as you can, so that a harness that (wrongly) depends on implementation details would notice. Use four different kinds, for example:
     1. re-implement the core algorithm in a different style (different loop structure, different intermediate representation, different library calls) with identical results;
     2. change the I/O access pattern: buffer sizes, number, size and order of Read/ReadAt/Seek calls, reading ahead, reading lazily, re-reading, different temporary allocations - same data delivered;
     3. change error messages, error types/wrapping, and behaviour on inputs or situations about which the property is silent (be more lenient or more strict there; return a different-but-allowed result where the statement leaves a choice, e.g. tie-breaking, order of unrelated items, which of several errors is reported first, what is returned together with an error when the statement does not say);
     4. change internal data structures and unexported helpers (map vs slice, caching with correct invalidation, pre-computation, splitting/merging functions, renaming unexported identifiers, adding unexported fields).
  THIS ROUND: concentrate on state, sharing and the environment - territory where a harness easily demands more than the statement says. For each of the four changes pick a DIFFERENT one of these and change the library's observable behaviour there as much as the statement allows: (i) process-wide caches, memo tables, interning and pools that are CORRECT (keyed by the complete input, bounded, properly locked, copying what they hand out or handing out immutable data) - results must stay exactly right under heavy concurrent use and after millions of different inputs; (ii) what happens on the second and later calls where the statement is silent: a second Close, Sum after Sum, accessor methods called repeatedly, an object reused after an error, retrying a failed call; (iii) how the caller's readers, writers and files are used: reading ahead or lazily, one big read versus many small ones, wrapping in larger buffers, leaving a reader positioned elsewhere, writing through a buffer that is flushed (with the error checked) at the end, Stat/Lstat/EvalSymlinks/Abs calls and relative-versus-absolute spellings of paths the statement does not pin down, temporary files; (iv) whether results share memory with each other, with the input or with package-level tables where the statement does not promise independence - and the opposite, extra defensive copies; (v) which characters count as white space, letter case, Unicode handling and normalisation of values OUTSIDE what the statement fixes; time values represented in another but equal way (same instant, same offset, other *Location or monotonic reading); nil versus empty; (vi) more or fewer goroutines used internally, with correct synchronisation. Avoid changes that merely rename things, and do not break the statement - if in doubt, pick another change.
  Do not edit or add *_test.go files in the library and do not change exported API signatures (adding exported identifiers is allowed).

For each change k in 1..4 create the directory /tmp/mut/outeq3/$ID/e\$k containing:
  - patch.diff : the change as 'git diff' output relative to the worktree's HEAD (must apply with 'git apply' to a clean checkout of the same commit),
  - notes.md : 5-10 lines: what the change is, which observable-but-unspecified behaviour differs now (be concrete: which inputs/calls behave differently and how), and why the property as stated still holds.
Workflow per change: start from a clean tree (git checkout -- . && git clean -fdq), make the change, run the full existing test suite (must pass), write a few throw-away tests of your own to convince yourself that the property still holds on unusual inputs (delete them afterwards), save the output of "git diff" to patch.diff, then clean the tree again.
Finish with the worktree clean (git status shows nothing). The output directory /tmp/mut/outeq3/$ID is OUTSIDE the worktree on purpose. In your final message list the four changes in one line each.
P
