#!/usr/bin/env python3
"""tools/mkknown.py <property> <kind> <input (python-escaped string)> <what fails>
Pins one known finding: writes known/<sha>.json and prints the KNOWN_FINDINGS.txt line."""
import sys, json, hashlib, base64, codecs, os
prop, kind, inp, text = sys.argv[1:5]
raw = codecs.decode(inp, 'unicode_escape').encode('latin-1')
key = hashlib.sha256(kind.encode() + b"\0" + raw).hexdigest()
os.makedirs('/verif/known', exist_ok=True)
json.dump({"property": prop, "kind": kind, "input_b64": base64.b64encode(raw).decode(), "input_text": raw.decode('utf-8', 'replace'), "msg": text},
          open('/verif/known/%s.json' % key, 'w'), indent=1)
print("known: property=%s case=%s %s" % (prop, key, text))
