#!/usr/bin/env python3
"""Regenerates the generated tables of DESIGN.md (between BEGIN/END markers):
 - FINDINGS: from KNOWN_FINDINGS.txt
 - SEEDED:   from seeded/*/meta.json"""
import json, glob, os, re
V = os.path.dirname(os.path.dirname(os.path.abspath(__file__)))

def findings():
    rows = ["| property | status | commit / case | what failed |", "|---|---|---|---|"]
    for line in open(os.path.join(V, "KNOWN_FINDINGS.txt")):
        line = line.strip()
        if line.startswith("fixed:"):
            _, prop, commit, rest = line.split(" ", 3)
            rows.append("| %s | fixed | `%s` | %s |" % (prop.split("=")[1], commit, rest.replace("|", "\\|")))
        elif line.startswith("known:"):
            _, prop, case, rest = line.split(" ", 3)
            rows.append("| %s | **known finding** | case %s… | %s |" % (prop.split("=")[1], case.split("=")[1][:12], rest.replace("|", "\\|")))
    return "\n".join(rows)

def seeded():
    rows = ["| seeded change | property | what it needs to manifest | detected by |", "|---|---|---|---|"]
    for d in sorted(glob.glob(os.path.join(V, "seeded", "C*"))):
        try:
            m = json.load(open(os.path.join(d, "meta.json")))
        except Exception:
            continue
        rows.append("| %s | %s | %s | %s |" % (os.path.basename(d), m["property"], m["needs_to_manifest"].replace("|", "\\|"), m["detected_by"].replace("|", "\\|")))
    return "\n".join(rows)

p = os.path.join(V, "DESIGN.md")
s = open(p).read()
for name, fn in (("FINDINGS", findings), ("SEEDED", seeded)):
    b, e = "<!-- BEGIN %s -->" % name, "<!-- END %s -->" % name
    if b in s and e in s:
        s = s[:s.index(b) + len(b)] + "\n" + fn() + "\n" + s[s.index(e):]
open(p, "w").write(s)
print("tables regenerated")
