#!/bin/bash
# tools/tryround.sh <outdir> <ID>... — for every mutant dir <outdir>/<ID>/mK: apply to /repo, run the
# property's own quick check; if that misses, run every other check; always revert.
export GOFLAGS=-mod=mod GOPROXY=off GOSUMDB=off GOTOOLCHAIN=local
OUT="$1"; shift
cd /verif
for id in "$@"; do
  for d in $OUT/$id/m*/; do
    m=$(basename $d)
    [ -f $d/patch.diff ] || continue
    if [ -n "$(git -C /repo status --porcelain)" ]; then echo "REPO NOT CLEAN"; exit 9; fi
    if ! git -C /repo apply $d/patch.diff 2>/dev/null; then echo "$id/$m: PATCH DOES NOT APPLY"; continue; fi
    suite=pass
    ( cd /repo && go build ./... && go test -vet=off -count=1 ./... ) >/dev/null 2>&1 || suite=FAIL
    hit=""
    out=$(./check $id quick 2>&1); rc=$?
    if [ $rc = 1 ] && echo "$out" | grep -q '^VIOLATION'; then hit="$id"; fi
    if [ -z "$hit" ]; then
      for o in $(cat tools/BUILT); do
        [ $o = $id ] && continue
        out=$(./check $o quick 2>&1); rc=$?
        if [ $rc = 1 ] && echo "$out" | grep -q '^VIOLATION'; then hit="$hit $o"; fi
      done
      [ -n "$hit" ] && hit="(own check missed) siblings:$hit"
    fi
    git -C /repo checkout -- . ; git -C /repo clean -fdq
    if [ -n "$hit" ]; then echo "$id/$m: suite=$suite detected by $hit"; else echo "$id/$m: suite=$suite MISSED BY ALL"; fi
  done
done
rm -rf /verif/replays
