package core

import (
	"encoding/binary"
	"encoding/json"
	"flag"
	"fmt"
	"os"
	"path/filepath"
	"strconv"
	"strings"
	"time"
)

// BatchResult is what a worker appends per finished batch.
type BatchResult struct {
	Batch    int              `json:"batch"`
	Name     string           `json:"name"`
	Evals    int64            `json:"evals"`
	Cov      map[string]int64 `json:"cov"`
	Max      map[string]int64 `json:"max"`
	Samples  []Sample         `json:"samples"`
	Findings []Finding        `json:"findings"`
	NDist    int              `json:"ndist"`
}

func parseSkip(s string) map[[2]int]bool {
	m := map[[2]int]bool{}
	for _, p := range strings.Split(s, ",") {
		if p == "" {
			continue
		}
		ab := strings.SplitN(p, ":", 2)
		if len(ab) != 2 {
			continue
		}
		a, _ := strconv.Atoi(ab[0])
		b, _ := strconv.Atoi(ab[1])
		m[[2]int{a, b}] = true
	}
	return m
}

// WorkerMain runs batches claimed from the shared work directory.
func WorkerMain(args []string) int {
	fs := flag.NewFlagSet("work", flag.ExitOnError)
	prop := fs.String("prop", "", "")
	tier := fs.String("tier", "quick", "")
	seed := fs.Uint64("seed", 1, "")
	id := fs.Int("id", 0, "")
	out := fs.String("out", "", "")
	resume := fs.Int("resume", -1, "batch to (re)run first without claiming")
	skip := fs.String("skip", "", "")
	fs.Parse(args)
	p := Lookup(*prop)
	if p == nil {
		fmt.Fprintf(os.Stderr, "unknown property %s\n", *prop)
		return 3
	}
	t := NewT(*prop, *tier, *seed)
	t.skip = parseSkip(*skip)
	t.WorkDir = filepath.Join(*out, fmt.Sprintf("w%d", *id))
	os.MkdirAll(t.WorkDir, 0o755)
	inf, err := os.OpenFile(filepath.Join(*out, fmt.Sprintf("inflight.%d", *id)), os.O_CREATE|os.O_RDWR|os.O_TRUNC, 0o644)
	if err != nil {
		fmt.Fprintln(os.Stderr, err)
		return 3
	}
	t.inflight = inf
	resf, err := os.OpenFile(filepath.Join(*out, fmt.Sprintf("result.%d.jsonl", *id)), os.O_CREATE|os.O_WRONLY|os.O_APPEND, 0o644)
	if err != nil {
		fmt.Fprintln(os.Stderr, err)
		return 3
	}
	distf, _ := os.OpenFile(filepath.Join(*out, fmt.Sprintf("distinct.%d", *id)), os.O_CREATE|os.O_WRONLY|os.O_APPEND, 0o644)
	batches := p.Batches(*tier, *seed)

	runOne := func(bi int) {
		b := batches[bi]
		t.batchIdx = bi
		t.caseIdx = 0
		t.Cov = map[string]int64{}
		t.Max = map[string]int64{}
		t.Evals = 0
		t.Distinct = map[uint64]struct{}{}
		t.Samples = nil
		t.Findings = nil
		// batch-level panic guard (generator bugs): attributed to the batch.
		t0 := time.Now()
		t.Case("batch:"+b.Name, []byte(fmt.Sprintf("%s/%d/%d", b.Name, b.Arg, b.N)), func(c *C) {
			t.Evals-- // the wrapper itself is not an evaluation
			p.RunBatch(t, b)
		})
		t.ObserveMax("slowest-batch-ms:"+b.Name, time.Since(t0).Milliseconds()) // evidence only
		br := BatchResult{Batch: bi, Name: b.Name, Evals: t.Evals, Cov: t.Cov, Max: t.Max, Samples: t.Samples, Findings: t.Findings, NDist: len(t.Distinct)}
		buf := make([]byte, 0, 8*len(t.Distinct))
		var tmp [8]byte
		for h := range t.Distinct {
			binary.LittleEndian.PutUint64(tmp[:], h)
			buf = append(buf, tmp[:]...)
		}
		distf.Write(buf)
		line, _ := json.Marshal(br)
		resf.Write(append(line, '\n'))
	}

	if *resume >= 0 && *resume < len(batches) {
		runOne(*resume)
	}
	for bi := range batches {
		cf, err := os.OpenFile(filepath.Join(*out, fmt.Sprintf("claim.%d", bi)), os.O_CREATE|os.O_EXCL|os.O_WRONLY, 0o644)
		if err != nil {
			continue
		}
		cf.Close()
		runOne(bi)
	}
	os.WriteFile(filepath.Join(*out, fmt.Sprintf("done.%d", *id)), []byte("ok"), 0o644)
	return 0
}

// CaseMain re-executes one serialised case read from a replay-format file.
// Exit 0: no finding; 1: finding(s), printed as JSON on stdout.
func CaseMain(args []string) int {
	fs := flag.NewFlagSet("case", flag.ExitOnError)
	prop := fs.String("prop", "", "")
	tier := fs.String("tier", "quick", "")
	seed := fs.Uint64("seed", 1, "")
	file := fs.String("file", "", "")
	fs.Parse(args)
	p := Lookup(*prop)
	if p == nil {
		return 3
	}
	rp, err := ReadReplay(*file)
	if err != nil {
		fmt.Fprintln(os.Stderr, err)
		return 3
	}
	t := NewT(*prop, *tier, *seed)
	t.Replay = true
	t.WorkDir, _ = os.MkdirTemp(os.Getenv("VERIF_WORK_RUN"), "case")
	defer os.RemoveAll(t.WorkDir)
	t.Case("replay", nil, func(c *C) {
		t.Evals--
		if rp.Kind == SteerKind {
			RunSteered(p, t, rp.Input)
			return
		}
		p.RunCase(t, rp.Kind, rp.Input)
	})
	out, _ := json.Marshal(t.Findings)
	fmt.Println(string(out))
	if len(t.Findings) > 0 {
		return 1
	}
	return 0
}
