package core

import (
	"encoding/binary"
	"syscall"
)

// InotifyEvent is one decoded event of the kernel queue (ordered).
type InotifyEvent struct {
	Wd   int
	Mask uint32
	Name string
}

// Inotify is a minimal in-process watcher: what an incoming-queue daemon
// watching a directory would see, in kernel order.
type Inotify struct{ fd int }

func NewInotify() (*Inotify, error) {
	fd, err := syscall.InotifyInit1(syscall.IN_NONBLOCK | syscall.IN_CLOEXEC)
	if err != nil {
		return nil, err
	}
	return &Inotify{fd: fd}, nil
}

func (i *Inotify) Watch(dir string) (int, error) {
	return syscall.InotifyAddWatch(i.fd, dir, syscall.IN_CREATE|syscall.IN_CLOSE_WRITE|syscall.IN_MOVED_TO|syscall.IN_MOVED_FROM|syscall.IN_DELETE|syscall.IN_MODIFY)
}

// Drain reads every queued event.
func (i *Inotify) Drain() []InotifyEvent {
	var out []InotifyEvent
	buf := make([]byte, 1<<16)
	for {
		n, err := syscall.Read(i.fd, buf)
		if n <= 0 || err != nil {
			return out
		}
		off := 0
		for off+16 <= n {
			wd := int(int32(binary.LittleEndian.Uint32(buf[off:])))
			mask := binary.LittleEndian.Uint32(buf[off+4:])
			l := int(binary.LittleEndian.Uint32(buf[off+12:]))
			name := ""
			if l > 0 && off+16+l <= n {
				b := buf[off+16 : off+16+l]
				for len(b) > 0 && b[len(b)-1] == 0 {
					b = b[:len(b)-1]
				}
				name = string(b)
			}
			out = append(out, InotifyEvent{Wd: wd, Mask: mask, Name: name})
			off += 16 + l
		}
	}
}

func (i *Inotify) Close() { syscall.Close(i.fd) }
