package core

import (
	"io"
	"sync"
)

// CountingReaderAt wraps an io.ReaderAt and records every read (offset,
// length). With Limit > 0 it refuses (and counts) reads of HeaderLen bytes
// beyond the limit, so a reader that loops forever is stopped by the monitor.
type CountingReaderAt struct {
	In        io.ReaderAt
	mu        sync.Mutex
	Reads     [][2]int64 // offset, length
	HeaderLen int
	Headers   []int64 // offsets of reads of exactly HeaderLen bytes while Track is on
	Track     bool
	Limit     int
	Exceeded  bool
	// ExactEOF makes the wrapper return (n, io.EOF) when a read ends exactly
	// at the end of the input, which the io.ReaderAt contract permits.
	ExactEOF bool
	Size     int64
}

func (c *CountingReaderAt) ReadAt(p []byte, off int64) (int, error) {
	c.mu.Lock()
	c.Reads = append(c.Reads, [2]int64{off, int64(len(p))})
	if c.Track && len(p) == c.HeaderLen {
		c.Headers = append(c.Headers, off)
		if c.Limit > 0 && len(c.Headers) > c.Limit {
			c.Exceeded = true
			c.mu.Unlock()
			return 0, io.ErrNoProgress
		}
	}
	c.mu.Unlock()
	n, err := c.In.ReadAt(p, off)
	if c.ExactEOF && err == nil && n == len(p) && off+int64(n) == c.Size {
		err = io.EOF
	}
	return n, err
}

// SizedCountingReaderAt additionally exposes Size(), like bytes.Reader and
// io.SectionReader do, so that code with a "reader knows its size" fast
// path is driven down that path too.
type SizedCountingReaderAt struct{ *CountingReaderAt }

func (s SizedCountingReaderAt) Size() int64 { return s.CountingReaderAt.Size }
