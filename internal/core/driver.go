package core

import (
	"bufio"
	"encoding/base64"
	"encoding/binary"
	"encoding/json"
	"fmt"
	"os"
	"os/exec"
	"path/filepath"
	"runtime"
	"sort"
	"strconv"
	"strings"
	"syscall"
	"time"
)

const VerifDir = "/verif"

// Replay is the on-disk witness format (also used for pinned known cases).
type Replay struct {
	Property string `json:"property"`
	Kind     string `json:"kind"`
	InputB64 string `json:"input_b64"`
	Text     string `json:"input_text,omitempty"`
	Msg      string `json:"msg,omitempty"`
	Tier     string `json:"tier,omitempty"`
	Seed     uint64 `json:"seed,omitempty"`
	Input    []byte `json:"-"`
}

func ReadReplay(path string) (*Replay, error) {
	b, err := os.ReadFile(path)
	if err != nil {
		return nil, err
	}
	var r Replay
	if err := json.Unmarshal(b, &r); err != nil {
		return nil, err
	}
	r.Input, err = base64.StdEncoding.DecodeString(r.InputB64)
	return &r, err
}

func WriteReplay(path string, r *Replay) error {
	r.InputB64 = base64.StdEncoding.EncodeToString(r.Input)
	r.Text = Printable(r.Input)
	b, _ := json.MarshalIndent(r, "", " ")
	os.MkdirAll(filepath.Dir(path), 0o755)
	return os.WriteFile(path, append(b, '\n'), 0o644)
}

type knownEntry struct {
	key  string
	text string
}

// readKnown parses KNOWN_FINDINGS.txt: lines
//
//	known: property=<ID> case=<sha256> <what fails>
//	fixed: property=<ID> <commit> <what failed>      (suppresses nothing)
func readKnown(prop string) []knownEntry {
	f, err := os.Open(filepath.Join(VerifDir, "KNOWN_FINDINGS.txt"))
	if err != nil {
		return nil
	}
	defer f.Close()
	var out []knownEntry
	sc := bufio.NewScanner(f)
	for sc.Scan() {
		line := strings.TrimSpace(sc.Text())
		if !strings.HasPrefix(line, "known:") {
			continue
		}
		fields := strings.Fields(line)
		if len(fields) < 3 || fields[1] != "property="+prop || !strings.HasPrefix(fields[2], "case=") {
			continue
		}
		out = append(out, knownEntry{key: strings.TrimPrefix(fields[2], "case="), text: strings.Join(fields[3:], " ")})
	}
	return out
}

type workerProc struct {
	id     int
	cmd    *exec.Cmd
	start  time.Time
	stderr string
	done   chan error
	// progress tracking: the in-flight journal header changes with every case
	lastKey      [12]byte
	lastProgress time.Time
}

type Driver struct {
	p        Prop
	tier     string
	seed     uint64
	work     string
	bin      string
	deaths   int
	skips    []string
	findings []Finding
	inconcl  []string
	notes    []string
}

func envInt(name string, def int) int {
	if v := os.Getenv(name); v != "" {
		if n, err := strconv.Atoi(v); err == nil {
			return n
		}
	}
	return def
}

func (d *Driver) spawn(id int, resume int) *workerProc {
	args := []string{"work", "--prop", d.p.ID(), "--tier", d.tier, "--seed", strconv.FormatUint(d.seed, 10),
		"--id", strconv.Itoa(id), "--out", d.work, "--resume", strconv.Itoa(resume), "--skip", strings.Join(d.skips, ",")}
	cmd := exec.Command(d.bin, args...)
	errPath := filepath.Join(d.work, fmt.Sprintf("stderr.%d", id))
	ef, _ := os.Create(errPath)
	cmd.Stderr = ef
	cmd.Stdout = ef
	cmd.Env = append(os.Environ(), "GOMEMLIMIT=6GiB", "VERIF_WORK_RUN="+d.work,
		"GORACE=halt_on_error=0 log_path="+filepath.Join(d.work, "race"))
	w := &workerProc{id: id, cmd: cmd, start: time.Now(), stderr: errPath, done: make(chan error, 1), lastProgress: time.Now()}
	if err := cmd.Start(); err != nil {
		w.done <- err
		return w
	}
	go func() { w.done <- cmd.Wait(); ef.Close() }()
	return w
}

func tail(path string, n int) string {
	b, _ := os.ReadFile(path)
	if len(b) > n {
		b = b[len(b)-n:]
	}
	return string(b)
}

func head(path string, n int) string {
	b, _ := os.ReadFile(path)
	if len(b) > n {
		b = b[:n]
	}
	return string(b)
}

// isolated re-runs one case alone in a fresh child under a CPU budget.
// Returns (findings, died, cpuKilled, output).
func (d *Driver) isolated(kind string, input []byte) ([]Finding, bool, bool, string) {
	tmp := filepath.Join(d.work, fmt.Sprintf("iso-%d.json", time.Now().UnixNano()))
	WriteReplay(tmp, &Replay{Property: d.p.ID(), Kind: kind, Input: input})
	defer os.Remove(tmp)
	budget := envInt("VERIF_CPU_BUDGET_S", 60)
	args := []string{"--cpu=" + strconv.Itoa(budget), d.bin, "case", "--prop", d.p.ID(), "--tier", d.tier,
		"--seed", strconv.FormatUint(d.seed, 10), "--file", tmp}
	cmd := exec.Command("prlimit", args...)
	cmd.Env = append(os.Environ(), "GOMEMLIMIT=6GiB", "VERIF_WORK_RUN="+d.work)
	var outb, errb strings.Builder
	cmd.Stdout = &outb
	cmd.Stderr = &errb
	err := cmd.Run()
	if err == nil {
		return nil, false, false, ""
	}
	if ee, ok := err.(*exec.ExitError); ok {
		ws := ee.Sys().(syscall.WaitStatus)
		if ws.Signaled() {
			sig := ws.Signal()
			cpu := sig == syscall.SIGXCPU || sig == syscall.SIGKILL
			return nil, true, cpu, "signal " + sig.String() + "\n" + lastN(errb.String(), 1200)
		}
		if ws.ExitStatus() == 1 {
			var fs []Finding
			lines := strings.Split(strings.TrimSpace(outb.String()), "\n")
			if json.Unmarshal([]byte(lines[len(lines)-1]), &fs) == nil && len(fs) > 0 {
				return fs, false, false, ""
			}
		}
		return nil, true, false, fmt.Sprintf("exit %d\n%s", ws.ExitStatus(), firstFatal(errb.String()))
	}
	return nil, true, false, err.Error()
}

func lastN(s string, n int) string {
	if len(s) > n {
		return s[len(s)-n:]
	}
	return s
}

// firstFatal extracts the most informative part of a Go crash dump.
func firstFatal(s string) string {
	for _, m := range []string{"fatal error:", "panic:", "BUG:", "runtime:"} {
		if i := strings.Index(s, m); i >= 0 {
			e := i + 1200
			if e > len(s) {
				e = len(s)
			}
			return s[i:e]
		}
	}
	return lastN(s, 1200)
}

// DriverMain runs one property check and returns the process exit code.
func DriverMain(propID, tier string, seed uint64, replayPath string) int {
	p := Lookup(propID)
	if p == nil {
		fmt.Printf("INCONCLUSIVE property=%s reason=unknown-property\n", propID)
		return 2
	}
	start := time.Now()
	self, _ := os.Executable()
	d := &Driver{p: p, tier: tier, seed: seed, bin: self}
	if rb := os.Getenv("VCHECK_RACE_BIN"); rb != "" {
		if rp, ok := p.(RaceProp); ok && rp.WantRace(tier) {
			d.bin = rb
			d.notes = append(d.notes, "workers built with -race")
		}
	}
	base := os.Getenv("VERIF_WORK")
	if base == "" {
		base = filepath.Join(VerifDir, ".work")
	}
	os.MkdirAll(base, 0o755)
	work, err := os.MkdirTemp(base, "run-"+propID+"-")
	if err != nil {
		fmt.Printf("INCONCLUSIVE property=%s reason=workdir:%v\n", propID, err)
		return 2
	}
	d.work = work
	defer os.RemoveAll(work)

	if replayPath != "" {
		rp, err := ReadReplay(replayPath)
		if err != nil {
			fmt.Printf("INCONCLUSIVE property=%s reason=replay-unreadable:%v\n", propID, err)
			return 2
		}
		fs, died, cpu, out := d.isolated(rp.Kind, rp.Input)
		if died {
			fs = append(fs, Finding{Kind: rp.Kind, Input: rp.Input, Msg: diedMsg(cpu, out)})
		}
		for _, f := range fs {
			fmt.Printf("  %s: %s\n", f.Kind, f.Msg)
		}
		if len(fs) > 0 {
			fmt.Printf("VIOLATION property=%s replay=%s\n", propID, replayPath)
			return 1
		}
		fmt.Printf("HELD property=%s replay=%s (the recorded case no longer fails)\n", propID, replayPath)
		return 0
	}

	batches := p.Batches(tier, seed)
	nw := runtime.NumCPU()
	if nw > 16 {
		nw = 16
	}
	if v := envInt("VERIF_WORKERS", 0); v > 0 {
		nw = v
	}
	if nw > len(batches) {
		nw = len(batches)
	}
	if nw < 1 {
		nw = 1
	}
	// a single case that does not finish within `stall` is cut and re-run alone under the CPU budget
	stall := time.Duration(envInt("VERIF_CASE_WATCHDOG_S", map[bool]int{true: 60, false: 240}[tier != "thorough"])) * time.Second
	watchdog := time.Duration(envInt("VERIF_WATCHDOG_S", map[bool]int{true: 900, false: 10800}[tier != "thorough"])) * time.Second

	// pinned known findings first (each alone in a child).
	known := readKnown(propID)
	knownKeys := map[string]string{}
	for _, k := range known {
		knownKeys[k.key] = k.text
		pin := filepath.Join(VerifDir, "known", k.key+".json")
		rp, err := ReadReplay(pin)
		if err != nil {
			d.inconcl = append(d.inconcl, "pinned known case missing: "+pin)
			continue
		}
		fs, died, _, _ := d.isolated(rp.Kind, rp.Input)
		if len(fs) > 0 || died {
			fmt.Printf("KNOWN-FINDING: property=%s %s\n", propID, k.text)
		} else {
			d.notes = append(d.notes, "pinned known finding no longer reproduces: "+k.key)
			fmt.Printf("note: pinned known finding %s no longer reproduces\n", k.key[:12])
		}
	}

	procs := map[int]*workerProc{}
	nextID := 0
	abort := false
	for i := 0; i < nw; i++ {
		procs[nextID] = d.spawn(nextID, -1)
		nextID++
	}
	for len(procs) > 0 {
		// wait for any to finish or the watchdog
		var finished *workerProc
		var werr error
		timeout := false
		for finished == nil {
			for _, w := range procs {
				select {
				case e := <-w.done:
					finished, werr = w, e
				default:
				}
				if finished != nil {
					break
				}
				// per-case stall detection: has the in-flight journal moved?
				if f, err := os.Open(filepath.Join(d.work, fmt.Sprintf("inflight.%d", w.id))); err == nil {
					var key [12]byte
					if n, _ := f.ReadAt(key[:], 0); n == 12 && key != w.lastKey {
						w.lastKey = key
						w.lastProgress = time.Now()
					}
					f.Close()
				}
				if time.Since(w.start) > watchdog || time.Since(w.lastProgress) > stall {
					w.cmd.Process.Signal(syscall.SIGKILL)
					<-w.done
					finished, timeout = w, true
					break
				}
			}
			if finished == nil {
				time.Sleep(20 * time.Millisecond)
			}
		}
		delete(procs, finished.id)
		if _, err := os.Stat(filepath.Join(d.work, fmt.Sprintf("done.%d", finished.id))); err == nil && werr == nil {
			continue
		}
		// death or hang
		d.deaths++
		b, idx, kind, input, ok := ReadInflight(filepath.Join(d.work, fmt.Sprintf("inflight.%d", finished.id)))
		if !ok {
			d.inconcl = append(d.inconcl, fmt.Sprintf("worker %d died before its first case: %s", finished.id, firstFatal(tail(finished.stderr, 4000))))
			continue
		}
		if strings.HasPrefix(kind, "batch:") {
			d.inconcl = append(d.inconcl, fmt.Sprintf("worker died in generator of %s: %s", kind, firstFatal(tail(finished.stderr, 4000))))
			continue
		}
		fs, died, cpu, out := d.isolated(kind, input)
		switch {
		case died && timeout:
			d.findings = append(d.findings, Finding{Kind: kind, Input: input, Msg: diedMsg(cpu, out)})
			// a call that does not return was confirmed: the verdict is known, do not wait for
			// the other workers to run into the same loop one watchdog period at a time
			for _, w := range procs {
				w.cmd.Process.Signal(syscall.SIGKILL)
				<-w.done
			}
			procs = map[int]*workerProc{}
			d.notes = append(d.notes, "stopped early after a confirmed non-returning call")
			abort = true
		case died:
			d.findings = append(d.findings, Finding{Kind: kind, Input: input, Msg: diedMsg(cpu, out)})
		case len(fs) > 0:
			d.findings = append(d.findings, fs...)
		case timeout:
			d.inconcl = append(d.inconcl, fmt.Sprintf("watchdog fired in %s but the case returns in isolation", kind))
		default:
			d.inconcl = append(d.inconcl, fmt.Sprintf("worker died in %s (not reproducible in isolation): %s", kind, firstFatal(tail(finished.stderr, 4000))))
		}
		d.skips = append(d.skips, fmt.Sprintf("%d:%d", b, idx))
		if abort {
			break
		}
		if d.deaths <= 30 {
			procs[nextID] = d.spawn(nextID, b)
			nextID++
		} else {
			d.inconcl = append(d.inconcl, "too many worker deaths; remaining batches not run")
		}
	}

	// merge
	cov := map[string]int64{}
	mx := map[string]int64{}
	var evals int64
	var samples []Sample
	doneBatches := map[int]bool{}
	for id := 0; id < nextID; id++ {
		f, err := os.Open(filepath.Join(d.work, fmt.Sprintf("result.%d.jsonl", id)))
		if err != nil {
			continue
		}
		sc := bufio.NewScanner(f)
		sc.Buffer(make([]byte, 1<<20), 1<<28)
		for sc.Scan() {
			var br BatchResult
			if json.Unmarshal(sc.Bytes(), &br) != nil {
				continue
			}
			if doneBatches[br.Batch] {
				continue
			}
			doneBatches[br.Batch] = true
			evals += br.Evals
			for k, v := range br.Cov {
				cov[k] += v
			}
			for k, v := range br.Max {
				if v > mx[k] {
					mx[k] = v
				}
			}
			for _, s := range br.Samples {
				if len(samples) < 10 && !strings.HasPrefix(s.Kind, "batch:") {
					samples = append(samples, s)
				}
			}
			d.findings = append(d.findings, br.Findings...)
		}
		f.Close()
	}
	distinct := map[uint64]struct{}{}
	for id := 0; id < nextID; id++ {
		b, err := os.ReadFile(filepath.Join(d.work, fmt.Sprintf("distinct.%d", id)))
		if err != nil {
			continue
		}
		for i := 0; i+8 <= len(b); i += 8 {
			distinct[binary.LittleEndian.Uint64(b[i:])] = struct{}{}
		}
	}
	if len(doneBatches) != len(batches) && !abort {
		d.inconcl = append(d.inconcl, fmt.Sprintf("only %d of %d batches completed", len(doneBatches), len(batches)))
	}

	// race logs
	raceBlocks := 0
	if matches, _ := filepath.Glob(filepath.Join(d.work, "race.*")); len(matches) > 0 {
		for _, m := range matches {
			txt, _ := os.ReadFile(m)
			n := strings.Count(string(txt), "WARNING: DATA RACE")
			raceBlocks += n
			if n > 0 {
				blk := string(txt)
				inLib := strings.Contains(blk, "/repo/") || strings.Contains(blk, "pault.ag/go/debian")
				if len(blk) > 3000 {
					blk = blk[:3000]
				}
				if inLib {
					d.findings = append(d.findings, Finding{Kind: "race-report", Input: []byte(filepath.Base(m)), Msg: fmt.Sprintf("%d DATA RACE block(s) with library frames:\n%s", n, blk)})
				} else {
					d.inconcl = append(d.inconcl, fmt.Sprintf("race detector reported %d block(s) without library frames (harness race?): %s", n, blk[:min(len(blk), 600)]))
				}
			}
		}
	}
	cov["race-detector-blocks"] = int64(raceBlocks)

	// driver-side post step
	if pp, ok := p.(PostProp); ok {
		dc := &DriverCtx{Prop: propID, Tier: tier, Seed: seed, WorkDir: d.work, VerifDir: VerifDir, Cov: cov, Max: mx,
			Evals: &evals, Findings: &d.findings, Notes: &d.notes, Inconclusive: &d.inconcl}
		if err := pp.Post(dc); err != nil {
			d.inconcl = append(d.inconcl, "post step: "+err.Error())
		}
	}

	for k, v := range cov {
		// a monitor can declare its own oracle unreliable for this run
		if strings.HasPrefix(k, "~inconclusive:") && v > 0 {
			d.inconcl = append(d.inconcl, fmt.Sprintf("%s (%d times)", strings.TrimPrefix(k, "~inconclusive:"), v))
		}
	}
	for _, m := range p.Mandatory(tier) {
		if cov[m] == 0 {
			d.inconcl = append(d.inconcl, "mandatory coverage class never observed: "+m)
		}
	}

	// findings → replays, minus known
	var newViol []string
	seen := map[string]bool{}
	for _, f := range d.findings {
		if strings.HasPrefix(f.Kind, "batch:") {
			// a panic outside any case is a fault of the generator, not of the library
			d.inconcl = append(d.inconcl, "harness generator failed in "+f.Kind+": "+f.Msg)
			continue
		}
		key := CaseKey(f.Kind, f.Input)
		if seen[key] {
			continue
		}
		seen[key] = true
		if _, ok := knownKeys[key]; ok {
			continue
		}
		path := filepath.Join(VerifDir, "replays", propID, key[:16]+".json")
		if len(newViol) >= 25 {
			newViol = append(newViol, path)
			continue
		}
		WriteReplay(path, &Replay{Property: propID, Kind: f.Kind, Input: f.Input, Msg: f.Msg, Tier: tier, Seed: seed})
		newViol = append(newViol, path)
		if len(newViol) <= 8 {
			fmt.Printf("  [%s] %s\n      input: %s\n", f.Kind, strings.ReplaceAll(f.Msg, "\n", "\n      "), Printable(f.Input))
		}
	}
	nviol := int(cov["~violations"])
	if nviol < len(newViol) {
		nviol = len(newViol)
	}

	// evidence
	observed := map[string]int64{}
	keys := make([]string, 0, len(cov))
	for k := range cov {
		keys = append(keys, k)
	}
	sort.Strings(keys)
	for _, k := range keys {
		if !strings.HasPrefix(k, "~") {
			observed[k] = cov[k]
		}
	}
	var anySamples []interface{}
	for _, s := range samples {
		anySamples = append(anySamples, s)
	}
	if len(anySamples) == 0 {
		anySamples = append(anySamples, Sample{Kind: "none", Input: "(no case recorded)"})
	}
	coverage := map[string]interface{}{
		"evaluations":         evals,
		"distinct_nontrivial": len(distinct),
		"rule":                p.Rule(),
		"samples":             anySamples,
		"observed":            observed,
		"observed_max":        mx,
		"batches":             len(batches),
		"worker_deaths":       d.deaths,
		"notes":               d.notes,
		"inconclusive":        d.inconcl,
	}
	if ep, ok := p.(ExhaustiveProp); ok && ep.Exhaustive(tier) {
		coverage["exhaustive"] = true
	}
	ev := map[string]interface{}{
		"property_id": propID,
		"tier":        map[bool]string{true: "thorough", false: "quick"}[tier == "thorough"],
		"seed":        seed,
		"level":       p.Level(),
		"coverage":    coverage,
		"assumptions": p.Assumptions(),
		"wall_s":      time.Since(start).Seconds(),
		"violations":  len(newViol),
	}
	eb, _ := json.MarshalIndent(ev, "", " ")
	evDir := filepath.Join(VerifDir, "evidence")
	if alt := os.Getenv("VERIF_EVIDENCE_DIR"); alt != "" {
		evDir = alt // development aid, see ./check
	}
	os.MkdirAll(evDir, 0o755)
	os.WriteFile(filepath.Join(evDir, propID+".json"), append(eb, '\n'), 0o644)

	if len(newViol) > 0 {
		for i, pth := range newViol {
			if i >= 10 {
				fmt.Printf("  … and %d more failing cases (first 25 witnesses kept under %s)\n", len(newViol)-10, filepath.Dir(pth))
				break
			}
			fmt.Printf("VIOLATION property=%s replay=%s\n", propID, pth)
		}
		return 1
	}
	if len(d.inconcl) > 0 {
		for _, r := range d.inconcl {
			fmt.Printf("INCONCLUSIVE property=%s reason=%s\n", propID, strings.ReplaceAll(r, "\n", " | "))
		}
		return 2
	}
	fmt.Printf("HELD property=%s tier=%s seed=%d evaluations=%d distinct_nontrivial=%d wall=%.1fs\n",
		propID, tier, seed, evals, len(distinct), time.Since(start).Seconds())
	return 0
}

func diedMsg(cpu bool, out string) string {
	if cpu {
		return "process killed at the CPU budget (did not return) — " + out
	}
	return "process died while executing this case (fatal error / os.Exit inside the library): " + out
}

func min(a, b int) int {
	if a < b {
		return a
	}
	return b
}
