package core

import (
	"bufio"
	"fmt"
	"os"
	"os/exec"
	"path/filepath"
	"regexp"
	"strconv"
	"strings"
	"time"
)

// FuzzTarget describes one native fuzz target of the thorough tier.
type FuzzTarget struct {
	Func  string // Go fuzz function in /verif/fuzz
	Kind  string // case kind the crasher is replayed as
	Execs int    // -fuzztime=<Execs>x
	// Steer marks a generator-steering target (fuzz input = the generator's random choices, see
	// RunSteered): a crasher is re-run in the driver and the generated case(s) that fail become the findings.
	Steer bool
}

var failingInputRe = regexp.MustCompile(`Failing input written to (\S+)`)

// decodeCorpus reads a "go test fuzz v1" corpus file with one value.
func decodeCorpus(path string) ([]byte, bool) {
	f, err := os.Open(path)
	if err != nil {
		return nil, false
	}
	defer f.Close()
	sc := bufio.NewScanner(f)
	sc.Buffer(make([]byte, 1<<20), 1<<26)
	for sc.Scan() {
		line := strings.TrimSpace(sc.Text())
		for _, pre := range []string{"string(", "[]byte("} {
			if strings.HasPrefix(line, pre) && strings.HasSuffix(line, ")") {
				if s, err := strconv.Unquote(line[len(pre) : len(line)-1]); err == nil {
					return []byte(s), true
				}
			}
		}
	}
	return nil, false
}

// RunFuzz runs the given targets with `go test -fuzz` against the current
// /repo tree. A crasher becomes a finding (kind = target kind, input = the
// minimised failing input); anything else that prevents fuzzing is an
// inconclusive reason. Budgets are iteration counts, not durations.
func RunFuzz(d *DriverCtx, targets []FuzzTarget) {
	if d.Tier != "thorough" || os.Getenv("VERIF_NO_FUZZ") == "1" {
		return
	}
	fdir := filepath.Join(d.VerifDir, "fuzz")
	defer os.RemoveAll(filepath.Join(fdir, "testdata"))
	cache := filepath.Join(d.WorkDir, "fuzzcache")
	for _, tg := range targets {
		os.RemoveAll(filepath.Join(fdir, "testdata"))
		start := time.Now()
		cmd := exec.Command("go", "test", "-tags", "verif", "-run=^$", "-fuzz=^"+tg.Func+"$", fmt.Sprintf("-fuzztime=%dx", tg.Execs),
			"-test.fuzzcachedir="+cache, "-parallel=16", ".")
		cmd.Dir = fdir
		cmd.Env = append(os.Environ(), "GOFLAGS=-mod=mod", "GOPROXY=off", "GOSUMDB=off", "GOTOOLCHAIN=local", "VERIF_WORK_RUN="+d.WorkDir)
		out, err := cmd.CombinedOutput()
		text := string(out)
		d.Cov["fuzz:"+tg.Func+":execs-budget"] = int64(tg.Execs)
		if m := regexp.MustCompile(`execs: (\d+)`).FindAllStringSubmatch(text, -1); len(m) > 0 {
			n, _ := strconv.ParseInt(m[len(m)-1][1], 10, 64)
			d.Cov["fuzz:"+tg.Func+":execs"] = n
			*d.Evals += n
		}
		if m := regexp.MustCompile(`new interesting: (\d+)`).FindAllStringSubmatch(text, -1); len(m) > 0 {
			n, _ := strconv.ParseInt(m[len(m)-1][1], 10, 64)
			d.Cov["fuzz:"+tg.Func+":new-interesting"] = n
		}
		*d.Notes = append(*d.Notes, fmt.Sprintf("fuzz %s: %.0fs", tg.Func, time.Since(start).Seconds()))
		if err == nil {
			continue
		}
		if m := failingInputRe.FindStringSubmatch(text); m != nil {
			p := m[1]
			if !filepath.IsAbs(p) {
				p = filepath.Join(fdir, p)
			}
			if in, ok := decodeCorpus(p); ok && tg.Steer {
				ct := NewT(d.Prop, d.Tier, 1)
				ct.Replay = true
				RunSteered(Lookup(d.Prop), ct, in)
				if len(ct.Findings) > 0 {
					for _, f := range ct.Findings {
						f.Msg = "[fuzz " + tg.Func + ", generated case] " + f.Msg
						*d.Findings = append(*d.Findings, f)
					}
					continue
				}
				*d.Findings = append(*d.Findings, Finding{Kind: SteerKind, Input: in, Msg: "[fuzz " + tg.Func + "] a steered generator run failed in the fuzz worker but not when re-run in the driver"})
				continue
			} else if ok {
				msg := "native fuzzing found a failing input"
				if i := strings.Index(text, "VIOLATION"); i >= 0 {
					msg = text[i:]
					if len(msg) > 1200 {
						msg = msg[:1200]
					}
				} else if i := strings.Index(text, "panic:"); i >= 0 {
					msg = text[i:]
					if len(msg) > 1200 {
						msg = msg[:1200]
					}
				}
				*d.Findings = append(*d.Findings, Finding{Kind: tg.Kind, Input: in, Msg: "[fuzz " + tg.Func + "] " + msg})
				continue
			}
		}
		if i := strings.Index(text, "VIOLATION"); i >= 0 {
			// a seed corpus entry already fails: no crasher file is written for those
			msg := text[i:]
			if len(msg) > 1200 {
				msg = msg[:1200]
			}
			*d.Findings = append(*d.Findings, Finding{Kind: tg.Kind + "-fuzzseed", Input: []byte(tg.Func), Msg: "[fuzz " + tg.Func + ", seed corpus] " + msg})
			continue
		}
		tailN := text
		if len(tailN) > 800 {
			tailN = tailN[len(tailN)-800:]
		}
		*d.Inconclusive = append(*d.Inconclusive, "fuzz target "+tg.Func+" could not run: "+tailN)
	}
}
