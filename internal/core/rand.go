package core

import "hash/fnv"

// Rand is a splitmix64 PRNG. All workload randomness comes from it; it is
// keyed by (VERIF_SEED, property, stream name) and never by the clock.
//
// A Rand may be "steered": its values are then taken from a byte string
// (little-endian, as few bytes as the requested range needs) until that is
// used up, after which the splitmix stream continues. The thorough tier uses
// this to let the coverage-guided fuzzer drive the structured generators.
type Rand struct {
	s   uint64
	src *steerSrc
}

type steerSrc struct {
	b   []byte
	pos int
}

// NewSteered returns a Rand whose stream is dictated by data.
func NewSteered(data []byte, names ...string) *Rand {
	r := NewRand(uint64(len(data)), names...)
	h := fnv.New64a()
	h.Write(data)
	r.s ^= h.Sum64()
	r.src = &steerSrc{b: data}
	return r
}

// SteerRest returns the unused steering bytes (nil for an unsteered Rand).
func (r *Rand) SteerRest() []byte {
	if r.src == nil || r.src.pos >= len(r.src.b) {
		return nil
	}
	return r.src.b[r.src.pos:]
}

func (r *Rand) take(n int) (uint64, bool) {
	if r.src == nil || r.src.pos+n > len(r.src.b) {
		return 0, false
	}
	var v uint64
	for i := 0; i < n; i++ {
		v |= uint64(r.src.b[r.src.pos+i]) << (8 * i)
	}
	r.src.pos += n
	return v, true
}

func NewRand(seed uint64, names ...string) *Rand {
	h := fnv.New64a()
	var b [8]byte
	for i := 0; i < 8; i++ {
		b[i] = byte(seed >> (8 * i))
	}
	h.Write(b[:])
	for _, n := range names {
		h.Write([]byte{0})
		h.Write([]byte(n))
	}
	r := &Rand{s: h.Sum64()}
	r.U64()
	return r
}

func (r *Rand) U64() uint64 {
	if r.src != nil {
		if v, ok := r.take(8); ok {
			return v
		}
	}
	r.s += 0x9e3779b97f4a7c15
	z := r.s
	z = (z ^ (z >> 30)) * 0xbf58476d1ce4e5b9
	z = (z ^ (z >> 27)) * 0x94d049bb133111eb
	return z ^ (z >> 31)
}

// Intn returns a value in [0,n). n<=0 yields 0.
func (r *Rand) Intn(n int) int {
	if n <= 0 {
		return 0
	}
	if r.src != nil {
		k := 8
		switch {
		case n <= 1<<8:
			k = 1
		case n <= 1<<16:
			k = 2
		case n <= 1<<32:
			k = 4
		}
		if v, ok := r.take(k); ok {
			return int(v % uint64(n))
		}
	}
	return int(r.U64() % uint64(n))
}

// Range returns a value in [lo,hi].
func (r *Rand) Range(lo, hi int) int {
	if hi <= lo {
		return lo
	}
	return lo + r.Intn(hi-lo+1)
}

func (r *Rand) Bool() bool {
	if r.src != nil {
		return r.Intn(2) == 1
	}
	return r.U64()&1 == 1
}

// Chance is true with probability num/den.
func (r *Rand) Chance(num, den int) bool { return r.Intn(den) < num }

func (r *Rand) Pick(xs []string) string { return xs[r.Intn(len(xs))] }

func (r *Rand) PickU64(xs []uint64) uint64 { return xs[r.Intn(len(xs))] }

func (r *Rand) PickByte(s string) byte { return s[r.Intn(len(s))] }

// Str returns a string of n bytes drawn from alphabet.
func (r *Rand) Str(alphabet string, n int) string {
	b := make([]byte, n)
	for i := range b {
		b[i] = alphabet[r.Intn(len(alphabet))]
	}
	return string(b)
}

func (r *Rand) Bytes(n int) []byte {
	b := make([]byte, n)
	for i := 0; i < n; i += 8 {
		v := r.U64()
		for j := 0; j < 8 && i+j < n; j++ {
			b[i+j] = byte(v >> (8 * j))
		}
	}
	return b
}

// Perm returns a permutation of 0..n-1.
func (r *Rand) Perm(n int) []int {
	p := make([]int, n)
	for i := range p {
		p[i] = i
	}
	for i := n - 1; i > 0; i-- {
		j := r.Intn(i + 1)
		p[i], p[j] = p[j], p[i]
	}
	return p
}

// Fork derives an independent stream.
func (r *Rand) Fork(name string) *Rand {
	if r.src != nil {
		f := NewRand(r.s, name)
		f.src = r.src
		return f
	}
	return NewRand(r.U64(), name)
}

// Pick3 returns one of the given ints.
func (r *Rand) Pick3(xs ...int) int { return xs[r.Intn(len(xs))] }
