package core

import "hash/fnv"

// Rand is a splitmix64 PRNG. All workload randomness comes from it; it is
// keyed by (VERIF_SEED, property, stream name) and never by the clock.
type Rand struct{ s uint64 }

func NewRand(seed uint64, names ...string) *Rand {
	h := fnv.New64a()
	var b [8]byte
	for i := 0; i < 8; i++ {
		b[i] = byte(seed >> (8 * i))
	}
	h.Write(b[:])
	for _, n := range names {
		h.Write([]byte{0})
		h.Write([]byte(n))
	}
	r := &Rand{s: h.Sum64()}
	r.U64()
	return r
}

func (r *Rand) U64() uint64 {
	r.s += 0x9e3779b97f4a7c15
	z := r.s
	z = (z ^ (z >> 30)) * 0xbf58476d1ce4e5b9
	z = (z ^ (z >> 27)) * 0x94d049bb133111eb
	return z ^ (z >> 31)
}

// Intn returns a value in [0,n). n<=0 yields 0.
func (r *Rand) Intn(n int) int {
	if n <= 0 {
		return 0
	}
	return int(r.U64() % uint64(n))
}

// Range returns a value in [lo,hi].
func (r *Rand) Range(lo, hi int) int {
	if hi <= lo {
		return lo
	}
	return lo + r.Intn(hi-lo+1)
}

func (r *Rand) Bool() bool { return r.U64()&1 == 1 }

// Chance is true with probability num/den.
func (r *Rand) Chance(num, den int) bool { return r.Intn(den) < num }

func (r *Rand) Pick(xs []string) string { return xs[r.Intn(len(xs))] }

func (r *Rand) PickByte(s string) byte { return s[r.Intn(len(s))] }

// Str returns a string of n bytes drawn from alphabet.
func (r *Rand) Str(alphabet string, n int) string {
	b := make([]byte, n)
	for i := range b {
		b[i] = alphabet[r.Intn(len(alphabet))]
	}
	return string(b)
}

func (r *Rand) Bytes(n int) []byte {
	b := make([]byte, n)
	for i := 0; i < n; i += 8 {
		v := r.U64()
		for j := 0; j < 8 && i+j < n; j++ {
			b[i+j] = byte(v >> (8 * j))
		}
	}
	return b
}

// Perm returns a permutation of 0..n-1.
func (r *Rand) Perm(n int) []int {
	p := make([]int, n)
	for i := range p {
		p[i] = i
	}
	for i := n - 1; i > 0; i-- {
		j := r.Intn(i + 1)
		p[i], p[j] = p[j], p[i]
	}
	return p
}

// Fork derives an independent stream.
func (r *Rand) Fork(name string) *Rand {
	return NewRand(r.U64(), name)
}

// Pick3 returns one of the given ints.
func (r *Rand) Pick3(xs ...int) int { return xs[r.Intn(len(xs))] }
