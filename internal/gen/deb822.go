package gen

import (
	"fmt"
	"strings"

	"verif/internal/core"
	"verif/internal/model"
)

var fieldNames = []string{"Package", "Version", "Description", "Depends", "Source", "Maintainer", "Architecture", "X-Foo", "XB-Bar", "Field.name", "a", "1st",
	"Foo+Bar", "K/v", "Foo_bar", "Order", "Values", "Files", "Checksums-Sha256", "Homepage", "Vcs-Git", "X", "Tag", "Section", "Priority", "x-lower", "UPPER", "Bugs", "Origin", "Z~z"}

const valAlpha = "abcdefghijklmnopqrstuvwxyzABCDEFGHIJKLMNOPQRSTUVWXYZ0123456789.,:;-_+~()<>[]=|/@#!$%&*'\"{}"

// nonASCIIWords: names and words as they occur in real control data. Several end in a UTF-8 continuation byte
// that would be white space if it stood alone in Latin-1 (0x85, 0xA0): à, Š, ą, 砠.
var nonASCIIWords = []string{"à", "voilà", "Š", "AleŠ", "ą", "są", "砠", "格", "Zoë", "naïve", "é", "café", "日本語", "ř", "Ångström", "…"}

func valueWord(r *core.Rand) string {
	if r.Chance(1, 14) {
		return r.Pick(nonASCIIWords)
	}
	return r.Str(valAlpha, r.Range(1, 9))
}

// LongLine is a single line longer than bufio's default 4096-byte buffer.
func LongLine(r *core.Rand) string {
	n := r.Pick3(4090, 4096, 4097, 5000, 8192, 8200, 12000)
	var sb strings.Builder
	for sb.Len() < n {
		sb.WriteString(valueWord(r))
		sb.WriteString(" ")
	}
	return strings.TrimRight(sb.String(), " ")
}

// ValueLine is a single-line text without leading/trailing blanks.
func ValueLine(r *core.Rand) string {
	if r.Chance(1, 150) {
		return LongLine(r)
	}
	n := r.Range(1, 4)
	w := make([]string, n)
	for i := range w {
		w[i] = valueWord(r)
	}
	s := strings.Join(w, r.Pick([]string{" ", " ", "  ", "\t"}))
	if s == "." { // a lone dot means "empty line" on a continuation line
		s = ".."
	}
	return s
}

func blanks(r *core.Rand) string {
	return r.Pick([]string{"", "", " ", "  ", "\t", " \t"})
}

func comments(r *core.Rand, p int) []string {
	if !r.Chance(1, p) {
		return nil
	}
	var out []string
	for k := r.Range(1, 2); k > 0; k-- {
		out = append(out, r.Pick([]string{"", " a comment", "Foo: not a field", " ", "#", " indented: x"}))
		if r.Chance(1, 12) { // a comment line longer than a 4 KiB read buffer
			out[len(out)-1] = " " + r.Str("abcdefgh ijkl:mnop", r.Range(4100, 9000))
		}
	}
	return out
}

// Deb822Field draws one field.
func Deb822Field(r *core.Rand, name string) model.Field {
	f := model.Field{Name: name, Lead: r.Pick([]string{" ", " ", " ", "", "  ", "\t"}), Comments: comments(r, 8)}
	if r.Chance(4, 5) {
		f.First = ValueLine(r)
		f.Trail = blanks(r)
	} else {
		f.Lead = r.Pick([]string{"", " ", ""})
	}
	if f.First == "" && r.Chance(1, 3) {
		return f // a field with an entirely empty value ("Recommends:")
	}
	if r.Chance(2, 5) || f.First == "" {
		for k := r.Range(1, 6); k > 0; k-- {
			c := model.ContLine{Marker: " ", Comments: comments(r, 10)}
			if r.Chance(1, 6) {
				c.Marker = "\t"
			}
			switch r.Intn(6) {
			case 0:
				c.Content = "."
			case 1: // indented
				c.Content = r.Pick([]string{" ", "  ", "\t", " \t"}) + ValueLine(r)
			case 2:
				c.Content = r.Pick([]string{"#not a comment", ". x", "..", "-", "Key: value", "a:b", ".hidden", " .", "  .", "\t.", " . ."})
			default:
				c.Content = ValueLine(r)
			}
			c.Trail = blanks(r)
			f.Cont = append(f.Cont, c)
		}
	}
	return f
}

// Deb822Doc draws a well-formed document.
func Deb822Doc(r *core.Rand) model.Doc {
	d := model.Doc{}
	if r.Chance(1, 5) {
		d.LeadBlank = r.Range(1, 3)
	}
	switch r.Intn(5) {
	case 0:
		d.CRLF = 1
	case 1:
		d.CRLF = 2
	}
	np := r.Range(0, 6)
	if r.Chance(1, 2) {
		np = r.Range(1, 3)
	}
	for i := 0; i < np; i++ {
		var p model.Para
		nf := r.Range(1, 6)
		perm := r.Perm(len(fieldNames))
		for k := 0; k < nf; k++ {
			name := fieldNames[perm[k]]
			if r.Chance(1, 12) { // another spelling of a well-known name (never two spellings in one paragraph)
				if r.Bool() {
					name = strings.ToLower(name)
				} else {
					name = strings.ToUpper(name)
				}
			}
			p.Fields = append(p.Fields, Deb822Field(r, name))
		}
		p.Sep = r.Pick3(1, 1, 2, 3)
		p.Comments = comments(r, 10)
		if r.Chance(1, 8) {
			p.Loose = []string{" a free-standing comment block", "Foo: x"}[:r.Range(1, 2)]
		}
		d.Paras = append(d.Paras, p)
	}
	if r.Chance(1, 8) {
		d.LeadLoose = []string{" licence header", ""}[:r.Range(1, 2)]
		if r.Chance(1, 3) {
			d.LeadLoose[0] = " " + r.Str("abcdefgh ijkl:mnop", r.Range(4100, 9000))
		}
	}
	if np > 0 {
		last := &d.Paras[np-1]
		last.Sep = r.Pick3(0, 0, 1, 2)
		if last.Sep == 0 && r.Chance(1, 2) {
			d.NoFinalNL = true
		}
	}
	return d
}

func init() { _ = fmt.Sprint }
