// Package gen holds the workload generators (DESIGN.md §3).
package gen

import (
	"strconv"
	"strings"

	"verif/internal/core"
	"verif/internal/model"
)

const (
	Letters = "abcdefghijklmnopqrstuvwxyzABCDEFGHIJKLMNOPQRSTUVWXYZ"
	Digits  = "0123456789"
)

// VText is a generated version with its textual rendering.
type VText struct {
	V        model.Ver
	HasEpoch bool // rendered with "N:" even when N == 0
	Text     string
}

func RenderVer(v model.Ver, hasEpoch bool) string {
	s := ""
	if hasEpoch || v.Epoch > 0 {
		s = strconv.FormatUint(v.Epoch, 10) + ":"
	}
	s += v.Upstream
	if v.Revision != "" {
		s += "-" + v.Revision
	}
	return s
}

// Epochs of generated version TEXT stay within what every reader of the format accepts (dpkg stops at INT_MAX);
// larger ones are "oversized" to dpkg and fine to this library - see BigEpochs.
var epochPool = []uint64{0, 1, 2, 10, 99, 1<<31 - 1}

// BigEpochs: epochs beyond dpkg's INT_MAX that still fit the library's field, for struct-level comparisons (C01/C02)
// and for the "accepted faithfully or refused" class of C03.
var BigEpochs = []uint64{1 << 31, 1<<32 + 5, 1<<63 - 1, 1 << 63, 1<<64 - 1}

func digitRun(r *core.Rand) string {
	switch r.Intn(10) {
	case 0:
		return "0"
	case 1: // leading zeros
		return strings.Repeat("0", r.Range(1, 4)) + r.Str(Digits, r.Range(1, 4))
	case 2: // beyond uint64
		return r.Str("123456789", 1) + r.Str(Digits, r.Range(19, 26))
	case 3:
		return r.Str(Digits, r.Range(5, 18))
	default:
		return r.Str(Digits, r.Range(1, 3))
	}
}

func nonDigitRun(r *core.Rand, allow string) string {
	n := r.Range(1, 3)
	b := make([]byte, 0, n)
	for i := 0; i < n; i++ {
		switch r.Intn(6) {
		case 0:
			b = append(b, '~')
		case 1, 2:
			b = append(b, r.PickByte(Letters))
		default:
			b = append(b, r.PickByte(allow))
		}
	}
	return string(b)
}

// part builds an upstream or revision string from alternating runs.
func part(r *core.Rand, startDigit bool, punct string) string {
	var sb strings.Builder
	n := r.Range(1, 5)
	digit := startDigit || r.Bool()
	for i := 0; i < n; i++ {
		if digit {
			sb.WriteString(digitRun(r))
		} else {
			sb.WriteString(nonDigitRun(r, punct))
		}
		digit = !digit
	}
	return sb.String()
}

// Version draws a version from the Policy grammar.
func Version(r *core.Rand) VText {
	var v model.Ver
	hasEpoch := r.Chance(1, 3)
	if hasEpoch {
		v.Epoch = epochPool[r.Intn(len(epochPool))]
	}
	hasRev := r.Chance(1, 2)
	punct := ".+~"
	if hasRev {
		punct += "-"
	}
	if hasEpoch {
		punct += ":"
	}
	v.Upstream = part(r, true, punct)
	if hasRev {
		v.Revision = part(r, false, ".+~")
	}
	return VText{V: v, HasEpoch: hasEpoch, Text: RenderVer(v, hasEpoch)}
}

// Near returns a single-edit variant of v that stays inside the grammar.
func Near(r *core.Rand, v VText) VText {
	n := v
	up, rev := []byte(v.V.Upstream), []byte(v.V.Revision)
	target := &up
	inRev := false
	if len(rev) > 0 && r.Bool() {
		target, inRev = &rev, true
	}
	alpha := ".+~" + Letters + Digits
	if !inRev && v.V.Revision != "" {
		alpha += "-"
	}
	if !inRev && v.HasEpoch {
		alpha += ":"
	}
	s := *target
	switch r.Intn(8) {
	case 0: // substitute one char (not the leading digit of upstream)
		if len(s) > 1 {
			i := r.Range(1, len(s)-1)
			s[i] = r.PickByte(alpha)
		}
	case 1: // append tilde
		s = append(s, '~')
	case 2: // append a char
		s = append(s, r.PickByte(alpha))
	case 3: // add a leading zero to some digit run
		for i := 0; i < len(s); i++ {
			if s[i] >= '0' && s[i] <= '9' && (i == 0 || s[i-1] < '0' || s[i-1] > '9') && r.Chance(1, 2) {
				s = append(s[:i], append([]byte{'0'}, s[i:]...)...)
				break
			}
		}
	case 4: // lengthen a digit run
		for i := len(s) - 1; i >= 0; i-- {
			if s[i] >= '0' && s[i] <= '9' {
				s = append(s[:i+1], append([]byte{r.PickByte(Digits)}, s[i+1:]...)...)
				break
			}
		}
	case 5: // drop last char
		if len(s) > 1 {
			s = s[:len(s)-1]
		}
	case 6: // toggle revision: drop it, or add "-0"
		if n.V.Revision != "" {
			if !strings.Contains(n.V.Upstream, "-") {
				n.V.Revision = ""
			}
		} else {
			n.V.Revision = "0"
		}
		n.Text = RenderVer(n.V, n.HasEpoch)
		return n
	case 7: // bump epoch
		n.V.Epoch++
		n.HasEpoch = true
		n.Text = RenderVer(n.V, n.HasEpoch)
		return n
	}
	if inRev {
		n.V.Revision = string(s)
	} else {
		n.V.Upstream = string(s)
	}
	n.Text = RenderVer(n.V, n.HasEpoch)
	return n
}

// AllStrings enumerates every string of length 0..maxLen over alphabet.
func AllStrings(alphabet string, maxLen int) []string {
	out := []string{""}
	prev := []string{""}
	for l := 1; l <= maxLen; l++ {
		var cur []string
		for _, p := range prev {
			for i := 0; i < len(alphabet); i++ {
				cur = append(cur, p+string(alphabet[i]))
			}
		}
		out = append(out, cur...)
		prev = cur
	}
	return out
}

// ClassAlphabet is class-complete for version comparison: digits
// (0, middle, 9), upper- and lower-case letter, tilde, and the four other
// characters the parser admits.
const ClassAlphabet = "019Aa~+-.:"
