package gen

import (
	"verif/internal/core"
	"verif/internal/model"
)

var (
	pkgNames   = []string{"libc6", "foo", "bar", "libfoo-dev", "g++", "python3.11", "a2ps", "libstdc++6", "x11-common", "0ad", "gcc-12-base", "zz", "lib3ds-1-3"}
	Quals      = []string{"any", "native", "amd64", "linux-any", "i386"}
	Ops        = []string{"<<", "<=", "=", ">=", ">>"}
	ArchNames  = []string{"amd64", "i386", "arm64", "armhf", "linux-any", "any-amd64", "kfreebsd-amd64", "kfreebsd-any", "hurd-i386", "musl-linux-arm64", "any", "gnu-any-any", "any-i386", "s390x", "ppc64el"}
	profNames  = []string{"stage1", "nocheck", "cross", "nodoc", "pkg.foo.bar", "noudeb", "stage2"}
	substNames = []string{"shlibs:Depends", "misc:Depends", "python3:Depends", "perl:Depends", "foo"}
)

const pkgAlpha = "abcdefghijklmnopqrstuvwxyz0123456789"

func PkgName(r *core.Rand) string {
	if r.Chance(1, 60) { // a token longer than any plausible fixed-size scratch buffer
		return r.Str(pkgAlpha, 1) + r.Str(pkgAlpha+"+.-", r.Pick3(63, 64, 65, 70, 130, 300)) + r.Str(pkgAlpha, 1)
	}
	if r.Chance(2, 3) {
		return r.Pick(pkgNames)
	}
	return r.Str(pkgAlpha, 1) + r.Str(pkgAlpha+"+.-", r.Range(1, 8)) + r.Str(pkgAlpha, 1)
}

func depVersion(r *core.Rand) string {
	if r.Chance(1, 40) { // e.g. a version carrying a long commit id
		return r.Str("123456789", 1) + "." + r.Str("0123456789abcdef", r.Pick3(62, 63, 64, 80, 200)) + "-1"
	}
	for {
		v := Version(r)
		if len(v.Text) <= 40 {
			return v.Text
		}
	}
}

// Poss draws one alternative. rich raises the number of features.
func Poss(r *core.Rand, rich bool) model.MPoss {
	if r.Chance(1, 10) {
		return model.MPoss{Name: r.Pick(substNames), Substvar: true}
	}
	p := model.MPoss{Name: PkgName(r)}
	d := 3
	if rich {
		d = 2
	}
	if r.Chance(1, d+1) {
		p.Qual = r.Pick(Quals)
	}
	if r.Chance(1, d) {
		p.Op = r.Pick(Ops)
		p.Ver = depVersion(r)
	}
	if r.Chance(1, d) {
		n := r.Range(1, 4)
		p.ArchNot = r.Bool()
		seen := map[string]bool{}
		for len(p.Archs) < n {
			a := r.Pick(ArchNames)
			if !seen[a] {
				seen[a] = true
				p.Archs = append(p.Archs, a)
			}
		}
	}
	if r.Chance(1, d) {
		ng := r.Range(1, 3)
		for g := 0; g < ng; g++ {
			var grp []model.MStage
			for k := r.Range(1, 3); k > 0; k-- {
				grp = append(grp, model.MStage{Not: r.Bool(), Name: r.Pick(profNames)})
			}
			p.Profiles = append(p.Profiles, grp)
		}
	}
	// random order of the restriction groups
	p.Normalise()
	if len(p.GroupOrder) > 1 {
		b := []byte(p.GroupOrder)
		for i := len(b) - 1; i > 0; i-- {
			j := r.Intn(i + 1)
			b[i], b[j] = b[j], b[i]
		}
		p.GroupOrder = string(b)
	}
	return p
}

func Dep(r *core.Rand, maxRel, maxAlt int, rich bool) model.MDep {
	var d model.MDep
	for i := r.Range(1, maxRel); i > 0; i-- {
		var rel model.MRel
		for k := r.Range(1, maxAlt); k > 0; k-- {
			rel = append(rel, Poss(r, rich))
		}
		d = append(d, rel)
	}
	return d
}

// RandomSpacer picks an atom per slot occurrence; it records what it used.
func RandomSpacer(r *core.Rand, used map[[2]string]int) model.Spacer {
	legal := map[string]bool{}
	for _, s := range model.AllSlots {
		legal[s.Name] = s.EmptyLegal
	}
	return func(slot string) string {
		var a string
		for {
			if r.Chance(1, 2) {
				a = model.Canonical(slot)
			} else {
				a = model.Atoms[r.Intn(len(model.Atoms))]
			}
			if a != "" || legal[slot] {
				break
			}
		}
		if used != nil {
			used[[2]string{slot, a}]++
		}
		return a
	}
}

// OneSlotSpacer is canonical everywhere except one slot kind, which gets
// the given atom at every occurrence.
func OneSlotSpacer(slot, atom string, used map[[2]string]int) model.Spacer {
	return func(s string) string {
		a := model.Canonical(s)
		if s == slot {
			a = atom
		}
		if used != nil {
			used[[2]string{s, a}]++
		}
		return a
	}
}
