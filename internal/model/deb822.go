package model

import (
	"strings"
)

// deb822 document model (Policy §5.1). The model knows both how it is
// written (markers, padding, comments, line endings) and what it means
// (per field: the list of logical lines).

type ContLine struct {
	Marker   string   `json:"m"`           // " " or "\t"
	Content  string   `json:"c"`           // text after the marker, "." for an empty line; may start with indentation
	Trail    string   `json:"t,omitempty"` // trailing blanks
	Comments []string `json:"cm,omitempty"`
}

type Field struct {
	Name     string     `json:"n"`
	PreColon string     `json:"pc,omitempty"` // (always empty for Policy-conforming documents)
	Lead     string     `json:"l,omitempty"`  // blanks after the colon
	First    string     `json:"f,omitempty"`  // first-line value, may be empty
	Trail    string     `json:"t,omitempty"`
	Cont     []ContLine `json:"k,omitempty"`
	Comments []string   `json:"cm,omitempty"` // comment lines before the field
}

type Para struct {
	Fields []Field `json:"f"`
	// Sep is the number of blank lines after this paragraph (>=1 between
	// paragraphs; may be 0 after the last one).
	Sep      int      `json:"s"`
	Comments []string `json:"cm,omitempty"` // comment lines after the paragraph's last field
	// Loose is a free-standing comment block (its own "paragraph" of only
	// comments) placed after this paragraph's separator, followed by one blank line.
	Loose []string `json:"lc,omitempty"`
}

type Doc struct {
	LeadBlank   int      `json:"lb,omitempty"`
	LeadLoose   []string `json:"ll,omitempty"` // free-standing comment block before the first paragraph
	Paras       []Para   `json:"p"`
	CRLF        int      `json:"crlf,omitempty"` // 0 LF, 1 CRLF, 2 mixed (alternating by line)
	NoFinalNL   bool     `json:"nofinal,omitempty"`
	BlankWithCR bool     `json:"-"`
}

// Lines gives the field's logical lines: a non-empty first line, then the
// continuation contents with marker and trailing blanks removed, "." → "".
func (f Field) Lines() []string {
	var out []string
	if f.First != "" {
		out = append(out, f.First)
	}
	for _, c := range f.Cont {
		if c.Content == "." {
			out = append(out, "")
		} else {
			out = append(out, c.Content)
		}
	}
	return out
}

// Render writes the document.
func (d Doc) Render() string {
	var lines []string
	for i := 0; i < d.LeadBlank; i++ {
		lines = append(lines, "")
	}
	if len(d.LeadLoose) > 0 {
		for _, c := range d.LeadLoose {
			lines = append(lines, "#"+c)
		}
		lines = append(lines, "")
	}
	for pi, p := range d.Paras {
		for _, f := range p.Fields {
			for _, c := range f.Comments {
				lines = append(lines, "#"+c)
			}
			lines = append(lines, f.Name+f.PreColon+":"+f.Lead+f.First+f.Trail)
			for _, c := range f.Cont {
				for _, cm := range c.Comments {
					lines = append(lines, "#"+cm)
				}
				lines = append(lines, c.Marker+c.Content+c.Trail)
			}
		}
		for _, c := range p.Comments {
			lines = append(lines, "#"+c)
		}
		n := p.Sep
		if pi < len(d.Paras)-1 && n < 1 {
			n = 1
		}
		for i := 0; i < n; i++ {
			lines = append(lines, "")
		}
		if len(p.Loose) > 0 && n > 0 {
			for _, c := range p.Loose {
				lines = append(lines, "#"+c)
			}
			lines = append(lines, "")
		}
	}
	var sb strings.Builder
	for i, l := range lines {
		sb.WriteString(l)
		last := i == len(lines)-1
		if last && d.NoFinalNL && l != "" {
			break
		}
		switch d.CRLF {
		case 1:
			sb.WriteString("\r\n")
		case 2:
			if i%2 == 0 {
				sb.WriteString("\r\n")
			} else {
				sb.WriteString("\n")
			}
		default:
			sb.WriteString("\n")
		}
	}
	return sb.String()
}

// ValueLines decodes a library value into logical lines: "" is no line;
// otherwise strip one trailing newline and split.
func ValueLines(v string) []string {
	if v == "" {
		return nil
	}
	v = strings.TrimSuffix(v, "\n")
	return strings.Split(v, "\n")
}

// RefPara is what the independent reference reader returns.
type RefPara struct {
	Order []string
	Lines map[string][]string
}

// RefRead is an independent deb822 reader over bytes (used where the
// document does not come from a model: signed bodies, corrupted inputs).
// It returns ok=false for input it considers malformed (a non-comment,
// non-continuation line without a colon; a continuation before any field;
// a duplicate field).
func RefRead(data string) (paras []RefPara, ok bool) {
	raw := strings.Split(data, "\n")
	if len(raw) > 0 && raw[len(raw)-1] == "" {
		raw = raw[:len(raw)-1]
	}
	cur := RefPara{Lines: map[string][]string{}}
	last := ""
	flush := func() {
		if len(cur.Order) > 0 {
			paras = append(paras, cur)
		}
		cur = RefPara{Lines: map[string][]string{}}
		last = ""
	}
	for _, l := range raw {
		l = strings.TrimSuffix(l, "\r")
		switch {
		case l == "":
			flush()
		case l[0] == '#':
		case l[0] == ' ' || l[0] == '\t':
			if last == "" {
				return nil, false
			}
			c := strings.TrimRight(l[1:], " \t\r\n\v\f")
			if c == "." {
				c = ""
			}
			cur.Lines[last] = append(cur.Lines[last], c)
		default:
			i := strings.IndexByte(l, ':')
			if i < 0 {
				return nil, false
			}
			name := strings.TrimSpace(l[:i])
			if _, dup := cur.Lines[name]; dup {
				return nil, false
			}
			cur.Order = append(cur.Order, name)
			v := strings.TrimSpace(l[i+1:])
			if v != "" {
				cur.Lines[name] = []string{v}
			} else {
				cur.Lines[name] = []string{}
			}
			last = name
		}
	}
	flush()
	return paras, true
}
