package model

import (
	"strings"
)

// Dependency AST of Policy §7.1 (+ build profiles, substvars).

type MStage struct {
	Not  bool   `json:"not,omitempty"`
	Name string `json:"name"`
}

type MPoss struct {
	Name     string     `json:"name"`
	Substvar bool       `json:"substvar,omitempty"`
	Qual     string     `json:"qual,omitempty"`
	Op       string     `json:"op,omitempty"`
	Ver      string     `json:"ver,omitempty"`
	Archs    []string   `json:"archs,omitempty"`
	ArchNot  bool       `json:"archnot,omitempty"`
	Profiles [][]MStage `json:"profiles,omitempty"`
	// GroupOrder lists the restriction groups in text order:
	// 'v' version, 'a' architectures, 'p' next profile group.
	GroupOrder string `json:"order,omitempty"`
}

type MRel []MPoss
type MDep []MRel

// Slot kinds of the independent renderer. Every inter-token position of a
// relationship field is one of these.
const (
	SlStart        = "start"
	SlEnd          = "end"
	SlBeforeComma  = "name/closer→,"
	SlAfterComma   = ",→"
	SlBeforePipe   = "name/closer→|"
	SlAfterPipe    = "|→"
	SlNameParen    = "name→("
	SlNameBracket  = "name→["
	SlNameAngle    = "name→<"
	SlGroupGroup   = "closer→opener"
	SlAfterParen   = "(→op"
	SlOpVer        = "op→version"
	SlVerParen     = "version→)"
	SlAfterBracket = "[→arch"
	SlArchArch     = "arch→arch"
	SlArchBracket  = "arch→]"
	SlAfterAngle   = "<→profile"
	SlProfProf     = "profile→profile"
	SlProfAngle    = "profile→>"
	SlNameComma    = "barename→,"
	SlNamePipe     = "barename→|"
	SlNameEnd      = "barename→end"
)

// AllSlots in a fixed order; the bool says whether the empty atom is legal.
var AllSlots = []struct {
	Name       string
	EmptyLegal bool
}{
	{SlStart, true}, {SlEnd, true}, {SlBeforeComma, true}, {SlAfterComma, true}, {SlBeforePipe, true}, {SlAfterPipe, true},
	{SlNameParen, true}, {SlNameBracket, true}, {SlNameAngle, true}, {SlGroupGroup, true}, {SlAfterParen, true}, {SlOpVer, true},
	{SlVerParen, true}, {SlAfterBracket, true}, {SlArchArch, false}, {SlArchBracket, true}, {SlAfterAngle, true},
	{SlProfProf, false}, {SlProfAngle, true}, {SlNameComma, true}, {SlNamePipe, true}, {SlNameEnd, true},
}

// Atoms are the whitespace fillers. A folded control field reaches the
// dependency parser with the continuation marker removed, so a bare "\n"
// between tokens is realistic.
var Atoms = []string{"", " ", "  ", "\t", "\n", "\n ", " \n\t"}

// Spacer decides the filler for one slot occurrence.
type Spacer func(slot string) string

// Canonical spacing: what Debian tools write.
func Canonical(slot string) string {
	switch slot {
	case SlAfterComma, SlBeforePipe, SlAfterPipe, SlNameParen, SlNameBracket, SlNameAngle, SlGroupGroup, SlOpVer, SlArchArch, SlProfProf, SlNamePipe:
		return " "
	}
	return ""
}

// Render prints the AST token by token, asking sp for every slot.
// trailingComma adds a final "," (legal in build-dependency fields).
func (d MDep) Render(sp Spacer, trailingComma bool) string {
	var sb strings.Builder
	sb.WriteString(sp(SlStart))
	lastBare := false
	for ri, rel := range d {
		if ri > 0 {
			if lastBare {
				sb.WriteString(sp(SlNameComma))
			} else {
				sb.WriteString(sp(SlBeforeComma))
			}
			sb.WriteString(",")
			sb.WriteString(sp(SlAfterComma))
		}
		for pi, p := range rel {
			if pi > 0 {
				if lastBare {
					sb.WriteString(sp(SlNamePipe))
				} else {
					sb.WriteString(sp(SlBeforePipe))
				}
				sb.WriteString("|")
				sb.WriteString(sp(SlAfterPipe))
			}
			lastBare = p.render(&sb, sp)
		}
	}
	if trailingComma && len(d) > 0 {
		if lastBare {
			sb.WriteString(sp(SlNameComma))
		} else {
			sb.WriteString(sp(SlBeforeComma))
		}
		sb.WriteString(",")
		lastBare = false
	}
	if lastBare {
		sb.WriteString(sp(SlNameEnd))
	} else {
		sb.WriteString(sp(SlEnd))
	}
	return sb.String()
}

// render returns true if the possibility ended in a bare name/qualifier.
func (p MPoss) render(sb *strings.Builder, sp Spacer) bool {
	if p.Substvar {
		sb.WriteString("${" + p.Name + "}")
		return false
	}
	sb.WriteString(p.Name)
	if p.Qual != "" {
		sb.WriteString(":" + p.Qual)
	}
	first := true
	pi := 0
	for _, g := range p.GroupOrder {
		open := map[rune]string{'v': SlNameParen, 'a': SlNameBracket, 'p': SlNameAngle}[g]
		if first {
			sb.WriteString(sp(open))
		} else {
			sb.WriteString(sp(SlGroupGroup))
		}
		first = false
		switch g {
		case 'v':
			sb.WriteString("(")
			sb.WriteString(sp(SlAfterParen))
			sb.WriteString(p.Op)
			sb.WriteString(sp(SlOpVer))
			sb.WriteString(p.Ver)
			sb.WriteString(sp(SlVerParen))
			sb.WriteString(")")
		case 'a':
			sb.WriteString("[")
			sb.WriteString(sp(SlAfterBracket))
			for i, a := range p.Archs {
				if i > 0 {
					sb.WriteString(sp(SlArchArch))
				}
				if p.ArchNot {
					sb.WriteString("!")
				}
				sb.WriteString(a)
			}
			sb.WriteString(sp(SlArchBracket))
			sb.WriteString("]")
		case 'p':
			grp := p.Profiles[pi]
			pi++
			sb.WriteString("<")
			sb.WriteString(sp(SlAfterAngle))
			for i, s := range grp {
				if i > 0 {
					sb.WriteString(sp(SlProfProf))
				}
				if s.Not {
					sb.WriteString("!")
				}
				sb.WriteString(s.Name)
			}
			sb.WriteString(sp(SlProfAngle))
			sb.WriteString(">")
		}
	}
	return first
}

// Normalise fills GroupOrder if empty: version, architectures, profiles.
func (p *MPoss) Normalise() {
	if p.Substvar || p.GroupOrder != "" {
		return
	}
	if p.Op != "" {
		p.GroupOrder += "v"
	}
	if len(p.Archs) > 0 {
		p.GroupOrder += "a"
	}
	for range p.Profiles {
		p.GroupOrder += "p"
	}
}
