package model

import "strings"

// MArch is what a Debian architecture name denotes: the atomic "all", or a
// triple whose components are "any" or a name.
type MArch struct {
	All          bool
	ABI, OS, CPU string
}

// DenoteArch gives the denotation of a 1-, 2- or 3-part Debian name.
// Two-part names: "<os>-<cpu>"; the missing ABI is a wildcard when either
// part is a wildcard (linux-any, any-amd64) and the default "gnu" otherwise
// (kfreebsd-amd64 is gnu-kfreebsd-amd64). One-part names: cpu on gnu-linux.
func DenoteArch(name string) (MArch, bool) {
	parts := strings.SplitN(name, "-", 3)
	switch len(parts) {
	case 1:
		switch name {
		case "all":
			return MArch{All: true}, true
		case "any":
			return MArch{ABI: "any", OS: "any", CPU: "any"}, true
		case "":
			return MArch{}, false
		}
		return MArch{ABI: "gnu", OS: "linux", CPU: name}, true
	case 2:
		abi := "gnu"
		if parts[0] == "any" || parts[1] == "any" {
			abi = "any"
		}
		return MArch{ABI: abi, OS: parts[0], CPU: parts[1]}, true
	case 3:
		return MArch{ABI: parts[0], OS: parts[1], CPU: parts[2]}, true
	}
	return MArch{}, false
}

func (a MArch) Wildcard() bool {
	return !a.All && (a.ABI == "any" || a.OS == "any" || a.CPU == "any")
}

// Match: does concrete c match pattern p (p may be concrete too)?
func Match(c, p MArch) bool {
	if c.All || p.All {
		return c.All && p.All
	}
	ok := func(cv, pv string) bool { return pv == "any" || pv == cv }
	return ok(c.ABI, p.ABI) && ok(c.OS, p.OS) && ok(c.CPU, p.CPU)
}

// SetAdmits: bracketed list semantics.
func SetAdmits(list []MArch, not bool, a MArch) bool {
	if len(list) == 0 {
		return true
	}
	some := false
	for _, e := range list {
		if Match(a, e) {
			some = true
		}
	}
	return some != not
}
