// Package model holds the reference models. They are written from Debian
// Policy / deb(5) / ar(5) and the property statements, not from go-debian.
package model

import (
	"math/big"
	"strings"
)

// Ver is the model's version triple. HasRev distinguishes "1.0" from "1.0-".
type Ver struct {
	Epoch    uint64
	Upstream string
	Revision string
}

func isDigit(c byte) bool  { return c >= '0' && c <= '9' }
func isLetter(c byte) bool { return (c >= 'a' && c <= 'z') || (c >= 'A' && c <= 'Z') }

type run struct {
	nondigit string
	digits   string
}

func splitRuns(s string) []run {
	var out []run
	i := 0
	for i < len(s) {
		j := i
		for j < len(s) && !isDigit(s[j]) {
			j++
		}
		k := j
		for k < len(s) && isDigit(s[k]) {
			k++
		}
		out = append(out, run{s[i:j], s[j:k]})
		i = k
	}
	return out
}

// class of one position inside a non-digit run: Policy 5.6.12 — "the
// letters sort earlier than all the non-letters and … the tilde sorts
// before anything, even the end of a part".
const (
	clTilde = iota
	clEnd
	clLetter
	clOther
)

func classOf(s string, i int) (int, int) {
	if i >= len(s) {
		return clEnd, 0
	}
	c := s[i]
	switch {
	case c == '~':
		return clTilde, 0
	case isLetter(c):
		return clLetter, int(c)
	default:
		return clOther, int(c)
	}
}

var clName = [...]string{"tilde", "end", "letter", "punct"}

// cmpPart compares one part (upstream or revision). It returns the sign and
// the name of the rule that decided.
func cmpPart(a, b string) (int, string) {
	ra, rb := splitRuns(a), splitRuns(b)
	for i := 0; i < len(ra) || i < len(rb); i++ {
		var x, y run
		if i < len(ra) {
			x = ra[i]
		}
		if i < len(rb) {
			y = rb[i]
		}
		n := len(x.nondigit)
		if len(y.nondigit) > n {
			n = len(y.nondigit)
		}
		for k := 0; k < n; k++ {
			ca, va := classOf(x.nondigit, k)
			cb, vb := classOf(y.nondigit, k)
			if ca != cb {
				lo, hi := ca, cb
				if lo > hi {
					lo, hi = hi, lo
				}
				rule := clName[lo] + "-vs-" + clName[hi]
				if ca < cb {
					return -1, rule
				}
				return 1, rule
			}
			if va != vb {
				rule := clName[ca] + "-vs-" + clName[cb]
				if va < vb {
					return -1, rule
				}
				return 1, rule
			}
		}
		da, db := new(big.Int), new(big.Int)
		if x.digits != "" {
			da.SetString(x.digits, 10)
		}
		if y.digits != "" {
			db.SetString(y.digits, 10)
		}
		if c := da.Cmp(db); c != 0 {
			ta, tb := strings.TrimLeft(x.digits, "0"), strings.TrimLeft(y.digits, "0")
			rule := "number-first-differing-digit"
			switch {
			case len(ta) > 19 || len(tb) > 19:
				rule = "number-beyond-uint64"
			case len(ta) != len(tb):
				rule = "number-longer-wins"
			}
			if len(ta) != len(x.digits) || len(tb) != len(y.digits) {
				rule += "+leading-zeros"
			}
			return c, rule
		}
	}
	return 0, "equal"
}

// RefCmp is the reference comparator: sign and deciding rule.
func RefCmp(a, b Ver) (int, string) {
	if a.Epoch != b.Epoch {
		if a.Epoch < b.Epoch {
			return -1, "epoch"
		}
		return 1, "epoch"
	}
	if c, r := cmpPart(a.Upstream, b.Upstream); c != 0 {
		return c, "upstream:" + r
	}
	c, r := cmpPart(a.Revision, b.Revision)
	if c == 0 {
		if a.Upstream != b.Upstream || a.Revision != b.Revision {
			if (a.Revision == "") != (b.Revision == "") {
				return 0, "equal:missing-revision-vs-zero"
			}
			return 0, "equal:textually-different"
		}
		return 0, "equal:identical"
	}
	if (a.Revision == "") != (b.Revision == "") {
		return c, "revision:missing-vs-present:" + r
	}
	return c, "revision:" + r
}

func Sign(x int) int {
	switch {
	case x < 0:
		return -1
	case x > 0:
		return 1
	}
	return 0
}
