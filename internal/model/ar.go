package model

import (
	"fmt"
	"strings"
)

// ArMember is one member of the ar(5) model.
type ArMember struct {
	Name      string `json:"name"`
	Slash     bool   `json:"slash,omitempty"` // written with the GNU "/" terminator
	Timestamp int64  `json:"mtime"`
	Owner     int64  `json:"uid"`
	Group     int64  `json:"gid"`
	Mode      string `json:"mode"`
	Blank     bool   `json:"blank,omitempty"`   // numeric fields other than size left blank
	ZeroPad   bool   `json:"zeropad,omitempty"` // numeric fields written with leading zeros (still decimal)
	Data      []byte `json:"data"`
}

func pad(s string, n int) string {
	if len(s) > n {
		return s[:n]
	}
	return s + strings.Repeat(" ", n-len(s))
}

// ArHeader renders the 60-byte member header.
func (m ArMember) ArHeader() []byte {
	name := m.Name
	if m.Slash {
		name += "/"
	}
	h := pad(name, 16)
	if m.Blank {
		h += pad("", 12) + pad("", 6) + pad("", 6) + pad("", 8)
	} else {
		h += pad(fmt.Sprint(m.Timestamp), 12) + pad(fmt.Sprint(m.Owner), 6) + pad(fmt.Sprint(m.Group), 6) + pad(m.Mode, 8)
	}
	if m.ZeroPad && !m.Blank {
		h = pad(name, 16) + fmt.Sprintf("%012d%06d%06d", m.Timestamp%1000000000000, m.Owner%1000000, m.Group%1000000) + pad(m.Mode, 8)
		h += fmt.Sprintf("%010d", len(m.Data)) + "`\n"
		return []byte(h)
	}
	h += pad(fmt.Sprint(len(m.Data)), 10) + "`\n"
	return []byte(h)
}

// WriteAr renders an archive. padLast=false omits the padding byte after an
// odd-sized last member (both forms occur in the wild).
func WriteAr(members []ArMember, padLast bool) []byte {
	return WriteArPad(members, padLast, '\n')
}

// WriteArPad is WriteAr with a chosen padding byte: the format only asks
// for data "padded to even length"; '\n' is customary, NUL is also written
// by some tools.
func WriteArPad(members []ArMember, padLast bool, pad byte) []byte {
	out := []byte("!<arch>\n")
	for i, m := range members {
		out = append(out, m.ArHeader()...)
		out = append(out, m.Data...)
		if len(m.Data)%2 == 1 && (i < len(members)-1 || padLast) {
			out = append(out, pad)
		}
	}
	return out
}

// HeaderOffsets lists where each member header starts, plus the offset at
// which the reader must look for the next header after the last member.
func HeaderOffsets(members []ArMember) []int64 {
	off := int64(8)
	var out []int64
	for _, m := range members {
		out = append(out, off)
		off += 60 + int64(len(m.Data)) + int64(len(m.Data)%2)
	}
	return append(out, off)
}
