// vcheck: driver and worker of the runtime-monitoring harness (DESIGN.md §2).
package main

import (
	"fmt"
	"os"
	"strconv"

	"verif/internal/core"
	_ "verif/props"
)

func main() {
	if len(os.Args) < 2 {
		fmt.Fprintln(os.Stderr, "usage: vcheck drive <ID> <tier> [--replay file] | work … | case … | list")
		os.Exit(3)
	}
	switch os.Args[1] {
	case "work":
		os.Exit(core.WorkerMain(os.Args[2:]))
	case "case":
		os.Exit(core.CaseMain(os.Args[2:]))
	case "list":
		for _, id := range core.IDs() {
			fmt.Println(id)
		}
	case "drive":
		if len(os.Args) < 4 {
			os.Exit(3)
		}
		seed := uint64(1)
		if s := os.Getenv("VERIF_SEED"); s != "" {
			if v, err := strconv.ParseUint(s, 10, 64); err == nil {
				seed = v
			}
		}
		replay := ""
		for i := 4; i+1 < len(os.Args); i++ {
			if os.Args[i] == "--replay" {
				replay = os.Args[i+1]
			}
		}
		os.Exit(core.DriverMain(os.Args[2], os.Args[3], seed, replay))
	default:
		os.Exit(3)
	}
}
