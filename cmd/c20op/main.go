// c20op runs one upload operation of pault.ag/go/debian/control in a process
// of its own, so that it can be observed (and have syscall failures injected)
// with strace. The main goroutine is pinned to the main OS thread, which
// makes strace's per-thread "when=N" fault injection deterministic.
// usage: c20op <Copy|Move|Remove> <dsc|changes> <control file> <destination dir>
package main

import (
	"fmt"
	"os"
	"runtime"

	"pault.ag/go/debian/control"
)

func init() { runtime.LockOSThread() }

type upload interface {
	Copy(string) error
	Move(string) error
	Remove() error
}

func main() {
	if len(os.Args) != 5 {
		os.Exit(3)
	}
	op, handle, ctl, dest := os.Args[1], os.Args[2], os.Args[3], os.Args[4]
	var up upload
	var name func() string
	if handle == "dsc" {
		d, err := control.ParseDscFile(ctl)
		if err != nil {
			fmt.Println("parse:", err)
			os.Exit(3)
		}
		up, name = d, func() string { return d.Filename }
	} else {
		c, err := control.ParseChangesFile(ctl)
		if err != nil {
			fmt.Println("parse:", err)
			os.Exit(3)
		}
		up, name = c, func() string { return c.Filename }
	}
	os.Stat("/verif-marker-begin")
	var err error
	switch op {
	case "Copy":
		err = up.Copy(dest)
	case "Move":
		err = up.Move(dest)
	case "Remove":
		err = up.Remove()
	}
	os.Stat("/verif-marker-end")
	fmt.Printf("filename=%s\n", name())
	if err != nil {
		fmt.Println("error:", err)
		os.Exit(1)
	}
}
