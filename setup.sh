#!/bin/bash
# MANIFEST.setup_cmd: build the harness once (plain and -race) so the Go build
# cache is warm. Offline; uses only /repo, /verif and the module cache.
set -e
cd "$(dirname "$(readlink -f "$0")")"
export GOFLAGS=-mod=mod GOPROXY=off GOSUMDB=off GOTOOLCHAIN=local
mkdir -p .build evidence
go build -tags verif -o .build/vcheck ./cmd/vcheck
go build -race -tags verif -o .build/vcheck.race ./cmd/vcheck
echo "setup ok: $(.build/vcheck list | tr '\n' ' ')"
