// Package props holds one file per property (DESIGN.md §4).
package props

import (
	"os/exec"
	"strconv"
	"strings"

	"pault.ag/go/debian/version"

	"verif/internal/core"
	"verif/internal/model"
)

const us = "\x1f" // unit separator inside serialised cases

func encVer(v model.Ver) string {
	return strconv.FormatUint(v.Epoch, 10) + us + v.Upstream + us + v.Revision
}

func decVer(s string) model.Ver {
	p := strings.SplitN(s, us, 3)
	for len(p) < 3 {
		p = append(p, "")
	}
	e, _ := strconv.ParseUint(p[0], 10, 64)
	return model.Ver{Epoch: e, Upstream: p[1], Revision: p[2]}
}

func libVer(v model.Ver) version.Version {
	return version.Version{Epoch: uint(v.Epoch), Version: v.Upstream, Revision: v.Revision}
}

func modVer(v version.Version) model.Ver {
	return model.Ver{Epoch: uint64(v.Epoch), Upstream: v.Version, Revision: v.Revision}
}

func encPair(a, b model.Ver) []byte { return []byte(encVer(a) + "\x1e" + encVer(b)) }

func decPair(in []byte) (model.Ver, model.Ver) {
	p := strings.SplitN(string(in), "\x1e", 2)
	if len(p) < 2 {
		p = append(p, "")
	}
	return decVer(p[0]), decVer(p[1])
}

func have(tool string) bool {
	_, err := exec.LookPath(tool)
	return err == nil
}

// spread splits total work into n batches with the given name.
func spread(name string, n, per int) []core.Batch {
	out := make([]core.Batch, n)
	for i := range out {
		out[i] = core.Batch{Name: name, Arg: i, N: per}
	}
	return out
}

func tierN(tier string, quick, thorough int) int {
	if tier == "thorough" {
		return thorough
	}
	return quick
}

func signName(s int) string {
	switch {
	case s < 0:
		return "lt"
	case s > 0:
		return "gt"
	}
	return "eq"
}
