// Package props holds one file per property (DESIGN.md §4).
package props

import (
	"os/exec"
	"strconv"
	"strings"

	"pault.ag/go/debian/version"

	"verif/internal/core"
	"verif/internal/model"
)

const us = "\x1f" // unit separator inside serialised cases

func encVer(v model.Ver) string {
	return strconv.FormatUint(v.Epoch, 10) + us + v.Upstream + us + v.Revision
}

func decVer(s string) model.Ver {
	p := strings.SplitN(s, us, 3)
	for len(p) < 3 {
		p = append(p, "")
	}
	e, _ := strconv.ParseUint(p[0], 10, 64)
	return model.Ver{Epoch: e, Upstream: p[1], Revision: p[2]}
}

func libVer(v model.Ver) version.Version {
	return version.Version{Epoch: uint(v.Epoch), Version: v.Upstream, Revision: v.Revision}
}

func modVer(v version.Version) model.Ver {
	return model.Ver{Epoch: uint64(v.Epoch), Upstream: v.Version, Revision: v.Revision}
}

func encPair(a, b model.Ver) []byte { return []byte(encVer(a) + "\x1e" + encVer(b)) }

func decPair(in []byte) (model.Ver, model.Ver) {
	p := strings.SplitN(string(in), "\x1e", 2)
	if len(p) < 2 {
		p = append(p, "")
	}
	return decVer(p[0]), decVer(p[1])
}

func have(tool string) bool {
	_, err := exec.LookPath(tool)
	return err == nil
}

// spread splits total work into n batches with the given name.
func spread(name string, n, per int) []core.Batch {
	out := make([]core.Batch, n)
	for i := range out {
		out[i] = core.Batch{Name: name, Arg: i, N: per}
	}
	return out
}

// conc lists batches that run the named random batch from 8 goroutines at once (core.RunConcurrently).
func conc(per int, names ...string) []core.Batch {
	var out []core.Batch
	for i, n := range names {
		out = append(out, core.Batch{Name: core.ConcPrefix + n, Arg: 100 + i, N: per})
	}
	return out
}

// concDispatch: first statement of RunBatch in the properties that have conc batches.
func concDispatch(p core.Prop, t *core.T, b core.Batch) bool {
	if !strings.HasPrefix(b.Name, core.ConcPrefix) {
		return false
	}
	core.RunConcurrently(p, t, b, 8)
	return true
}

func tierN(tier string, quick, thorough int) int {
	if tier == "thorough" {
		return thorough
	}
	return quick
}

func signName(s int) string {
	switch {
	case s < 0:
		return "lt"
	case s > 0:
		return "gt"
	}
	return "eq"
}

// Post steps: native fuzzing in the thorough tier (DESIGN §2.6): byte-level targets where the case is a
// byte string, generator-steering targets (FuzzSteer*, DESIGN §0a) where it is a structured model.
func steerTarget(id string, execs int) core.FuzzTarget {
	return core.FuzzTarget{Func: "FuzzSteer" + id, Kind: core.SteerKind, Execs: execs, Steer: true}
}

func (c01) Post(d *core.DriverCtx) error {
	core.RunFuzz(d, []core.FuzzTarget{steerTarget("C01", 2000000)})
	return nil
}
func (c02) Post(d *core.DriverCtx) error {
	core.RunFuzz(d, []core.FuzzTarget{steerTarget("C02", 500000)})
	return nil
}
func (c03) Post(d *core.DriverCtx) error {
	core.RunFuzz(d, []core.FuzzTarget{{Func: "FuzzC03Version", Kind: "roundtrip", Execs: 1500000}, steerTarget("C03", 1500000)})
	return nil
}
func (c04) Post(d *core.DriverCtx) error {
	core.RunFuzz(d, []core.FuzzTarget{steerTarget("C04", 1000000)})
	return nil
}
func (c05) Post(d *core.DriverCtx) error {
	core.RunFuzz(d, []core.FuzzTarget{{Func: "FuzzC05Dependency", Kind: "dep", Execs: 2000000}, {Func: "FuzzC05Arch", Kind: "arch", Execs: 500000}, steerTarget("C05", 600000)})
	return nil
}
func (c06) Post(d *core.DriverCtx) error {
	core.RunFuzz(d, []core.FuzzTarget{steerTarget("C06", 1500000)})
	return nil
}
func (c07) Post(d *core.DriverCtx) error {
	core.RunFuzz(d, []core.FuzzTarget{{Func: "FuzzC07Paragraphs", Kind: "inv", Execs: 1000000}, steerTarget("C07", 600000)})
	return nil
}
func (c08) Post(d *core.DriverCtx) error {
	core.RunFuzz(d, []core.FuzzTarget{{Func: "FuzzC08Cycle", Kind: "cycle", Execs: 500000}, steerTarget("C08", 1000000)})
	return nil
}
func (c09) Post(d *core.DriverCtx) error {
	core.RunFuzz(d, []core.FuzzTarget{steerTarget("C09", 1500000)})
	return nil
}
func (c10) Post(d *core.DriverCtx) error {
	core.RunFuzz(d, []core.FuzzTarget{steerTarget("C10", 1000000)})
	return nil
}
func (c12) Post(d *core.DriverCtx) error {
	core.RunFuzz(d, []core.FuzzTarget{steerTarget("C12", 300000)})
	return nil
}
func (c13) Post(d *core.DriverCtx) error {
	core.RunFuzz(d, []core.FuzzTarget{steerTarget("C13", 1500000)})
	return nil
}
func (c15) Post(d *core.DriverCtx) error {
	core.RunFuzz(d, []core.FuzzTarget{{Func: "FuzzC15Ar", Kind: "ar-bytes", Execs: 1000000}, {Func: "FuzzC15Deb", Kind: "deb-bytes", Execs: 300000}, steerTarget("C15", 200000)})
	return nil
}
func (c17) Post(d *core.DriverCtx) error {
	core.RunFuzz(d, []core.FuzzTarget{steerTarget("C17", 1500000)})
	return nil
}
func (c18) Post(d *core.DriverCtx) error {
	core.RunFuzz(d, []core.FuzzTarget{{Func: "FuzzC18Parsers", Kind: "input", Execs: 300000}})
	return nil
}
func (c19) Post(d *core.DriverCtx) error {
	core.RunFuzz(d, []core.FuzzTarget{steerTarget("C19", 1000000)})
	return nil
}
