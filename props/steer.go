package props

// SteerBatches: the random batches of each property that honour Batch.N and
// draw every choice from T.Rand, so that core.RunSteered (and through it the
// coverage-guided FuzzSteer targets of the thorough tier) can drive the
// structured generators. Exhaustive, pinned, external-tool, filesystem and
// key-generating batches are left to the deterministic tiers.

func (c01) SteerBatches() []string { return []string{"rand", "less"} }
func (c02) SteerBatches() []string { return []string{"sort"} }
func (c03) SteerBatches() []string { return []string{"grammar", "invalid", "rtrand"} }
func (c04) SteerBatches() []string { return []string{"rand", "malformed"} }
func (c05) SteerBatches() []string { return []string{"grammar", "mutant"} }
func (c06) SteerBatches() []string { return []string{"setrand", "poss"} }
func (c07) SteerBatches() []string { return []string{"doc", "corrupt"} }
func (c08) SteerBatches() []string { return []string{"para", "cycle", "encoder"} }
func (c09) SteerBatches() []string {
	return []string{"scalars", "lists", "nested", "ptr", "required", "pass", "setupdate"}
}
func (c10) SteerBatches() []string { return c10Kinds }
func (c12) SteerBatches() []string { return []string{"stream", "verify"} }
func (c13) SteerBatches() []string { return []string{"ar"} }
func (c15) SteerBatches() []string { return []string{"members"} }
func (c17) SteerBatches() []string { return []string{"full", "malformed"} }
func (c19) SteerBatches() []string { return []string{"graph"} }
