package props

import (
	"bytes"
	"encoding/json"
	"fmt"
	"os"
	"os/exec"
	"path/filepath"
	"regexp"
	"strings"

	"verif/internal/core"
)

// strace part of C20 (thorough tier): the operation runs in cmd/c20op under
// strace, once as a dry run (syscall order + every path argument) and then
// once per injected syscall failure.

type c20Trace struct {
	Op     string `json:"op"`
	Handle string `json:"handle"`
	K      int    `json:"k"`
	Inject string `json:"inject"` // "" (dry run) or "<syscalls>:error=<errno>:when=<n>"
	Seed   uint64 `json:"seed"`
}

var quoted = regexp.MustCompile(`"((?:[^"\\]|\\.)*)"`)

func (p c20) strace(c *core.C, t *core.T, cs c20Trace) {
	opBin := os.Getenv("VCHECK_C20OP")
	if opBin == "" || !have("strace") {
		c.Cover("strace:unavailable")
		return
	}
	r := core.NewRand(cs.Seed, "c20strace")
	base, err := os.MkdirTemp(t.WorkDir, "c20s-")
	if err != nil {
		return
	}
	defer os.RemoveAll(base)
	src, dst := filepath.Join(base, "up", "src"), filepath.Join(base, "dst")
	os.MkdirAll(src, 0o755)
	os.MkdirAll(dst, 0o755)
	os.WriteFile(filepath.Join(base, "up", "secret.txt"), r.Bytes(200), 0o644)
	names := plainNames(r, cs.K)
	ext := map[string]string{"dsc": ".dsc", "changes": ".changes"}[cs.Handle]
	ctlName := "pkg_1.0-1" + ext
	var sb strings.Builder
	if cs.Handle == "dsc" {
		sb.WriteString("Format: 3.0 (quilt)\nSource: pkg\nBinary: pkg\nArchitecture: any\nVersion: 1.0-1\nMaintainer: A <a@example.org>\nFiles:\n")
		for _, n := range names {
			sb.WriteString(fmt.Sprintf(" d41d8cd98f00b204e9800998ecf8427e 100 %s\n", n))
		}
	} else {
		sb.WriteString("Format: 1.8\nSource: pkg\nBinary: pkg\nArchitecture: source\nVersion: 1.0-1\nDistribution: unstable\nMaintainer: A <a@example.org>\nChanges:\n pkg (1.0-1) unstable; urgency=low\nFiles:\n")
		for _, n := range names {
			sb.WriteString(fmt.Sprintf(" d41d8cd98f00b204e9800998ecf8427e 100 misc optional %s\n", n))
		}
	}
	ctlPath := filepath.Join(src, ctlName)
	os.WriteFile(ctlPath, []byte(sb.String()), 0o644)
	for _, n := range names {
		os.WriteFile(filepath.Join(src, n), r.Bytes(r.Range(1, 5000)), 0o644)
	}
	before := snapshot(base)
	trace := filepath.Join(base, "trace.txt")
	args := []string{"-f", "-o", trace, "-e", "trace=openat,open,creat,rename,renameat,renameat2,unlink,unlinkat,copy_file_range,newfstatat,stat,statx"}
	if cs.Inject != "" {
		args = append(args, "-e", "inject="+cs.Inject)
	}
	args = append(args, opBin, cs.Op, cs.Handle, ctlPath, dst)
	cmd := exec.Command("strace", args...)
	var out bytes.Buffer
	cmd.Stdout, cmd.Stderr = &out, &out
	runErr := cmd.Run()
	code := 0
	if ee, ok := runErr.(*exec.ExitError); ok {
		code = ee.ExitCode()
	} else if runErr != nil {
		c.Cover("strace:could-not-run")
		return
	}
	if code == 3 {
		c.Cover("strace:fault-hit-the-parse-phase")
		return
	}
	tb, _ := os.ReadFile(trace)
	os.Remove(trace)
	after := snapshot(base)
	delete(after, "trace.txt")
	// syscalls between the markers
	var ops []string
	in := false
	injected := false
	for _, line := range strings.Split(string(tb), "\n") {
		if strings.Contains(line, "/verif-marker-begin") {
			in = true
			continue
		}
		if strings.Contains(line, "/verif-marker-end") {
			in = false
		}
		if !in {
			continue
		}
		if strings.Contains(line, "(INJECTED)") {
			injected = true
		}
		for _, sys := range []string{"openat(", "rename", "unlink", "copy_file_range("} {
			if i := strings.Index(line, sys); i >= 0 && i < 12 {
				ops = append(ops, line)
				for _, m := range quoted.FindAllStringSubmatch(line, -1) {
					pth := m[1]
					if strings.HasPrefix(pth, "/") && !strings.HasPrefix(pth, src+"/") && !strings.HasPrefix(pth, dst+"/") && pth != dst && pth != src {
						c.Failf("%s(%s) touched %q, which is outside the control file's directory and the destination: %s", cs.Op, cs.Handle, pth, line)
					}
				}
				break
			}
		}
	}
	if len(ops) > 0 {
		c.Cover("strace:syscalls-observed")
	}
	// the control file must be the last path created / renamed / unlinked
	lastCtl, lastOther := -1, -1
	for i, l := range ops {
		mut := strings.Contains(l, "O_CREAT") || strings.Contains(l, "rename") || strings.Contains(l, "unlink")
		if !mut {
			continue
		}
		if strings.Contains(l, "/"+ctlName+"\"") { // exact file name (pkg_1.0-1.dsc.asc is a referenced file)
			if lastCtl < 0 {
				lastCtl = i
			}
		} else {
			lastOther = i
		}
	}
	if cs.Inject == "" && lastCtl >= 0 && lastOther > lastCtl {
		c.Failf("%s(%s): the control file was created/moved/deleted (syscall %d) before a referenced file (syscall %d):\n%s", cs.Op, cs.Handle, lastCtl, lastOther, strings.Join(ops, "\n"))
	}
	relDst, relSrc := "dst", filepath.Join("up", "src")
	// outside unchanged
	for rel, h := range before {
		if !strings.HasPrefix(rel, relDst) && !strings.HasPrefix(rel, relSrc) && after[rel] != h {
			c.Failf("%s(%s) under %q changed %q outside the upload and destination directories", cs.Op, cs.Handle, cs.Inject, rel)
		}
	}
	switch {
	case cs.Inject == "":
		if code != 0 {
			c.Failf("%s(%s) failed in a dry run under strace: %s", cs.Op, cs.Handle, out.String())
		}
		c.Cover("strace:dry-run:" + cs.Op)
	case !injected:
		c.Cover("strace:injection-point-not-reached")
	default:
		c.Cover("strace:injected:" + cs.Op)
		if code == 0 {
			// the library may legitimately recover from a failed syscall by another route (e.g. copy_file_range -> read/write)
			c.Cover("strace:injected-but-operation-succeeded")
			if cs.Op != "Remove" && after[filepath.Join(relDst, ctlName)] != before[filepath.Join(relSrc, ctlName)] {
				c.Failf("%s(%s) reported success under %q but the control file in the destination is not the original", cs.Op, cs.Handle, cs.Inject)
			}
		} else {
			if cs.Op != "Remove" {
				if h, ok := after[filepath.Join(relDst, ctlName)]; ok && h != "dir" {
					c.Failf("%s(%s) failed under %q (%s) but the control file is in the destination", cs.Op, cs.Handle, cs.Inject, strings.TrimSpace(out.String()))
				}
			}
			if cs.Op == "Move" && after[filepath.Join(relSrc, ctlName)] != before[filepath.Join(relSrc, ctlName)] {
				c.Failf("Move(%s) failed under %q but the control file is no longer intact at its source", cs.Handle, cs.Inject)
			}
		}
	}
	c.Nontrivial()
}

func (p c20) straceBatch(t *core.T, b core.Batch) {
	r := t.Rand("strace", fmt.Sprint(b.Arg))
	emit := func(cs c20Trace) {
		in, _ := json.Marshal(cs)
		t.Case("strace", in, func(c *core.C) { p.strace(c, t, cs) })
	}
	for i := 0; i < b.N; i++ {
		op := []string{"Copy", "Move", "Remove"}[(i+b.Arg)%3]
		h := []string{"dsc", "changes"}[(i/3)%2]
		k := 1 + i%4
		seed := r.U64()
		emit(c20Trace{Op: op, Handle: h, K: k, Seed: seed})
		for n := 1; n <= k+1; n++ {
			switch op {
			case "Copy":
				emit(c20Trace{Op: op, Handle: h, K: k, Seed: seed, Inject: fmt.Sprintf("copy_file_range:error=ENOSPC:when=%d", n)})
			case "Move":
				emit(c20Trace{Op: op, Handle: h, K: k, Seed: seed, Inject: fmt.Sprintf("rename,renameat,renameat2:error=%s:when=%d", r.Pick([]string{"EXDEV", "EACCES", "ENOSPC"}), n)})
			case "Remove":
				emit(c20Trace{Op: op, Handle: h, K: k, Seed: seed, Inject: fmt.Sprintf("unlink,unlinkat:error=EACCES:when=%d", n)})
			}
		}
	}
}
