package props

import (
	"encoding/json"
	"fmt"
	"os"
	"os/exec"
	"path/filepath"
	"strings"

	"pault.ag/go/debian/dependency"

	"verif/internal/core"
	"verif/internal/gen"
	"verif/internal/model"
)

// C04 — dependency fields parse into exactly the structure they denote.
type c04 struct{}

func init() { core.Register(c04{}) }

func (c04) ID() string    { return "C04" }
func (c04) Level() string { return "exploration" }
func (c04) Rule() string {
	return "dependency ASTs (relations > alternatives > name[:qualifier] with optional (op version), [arch...]/[!arch...], <profile...> groups in every order, or ${substvar}) printed by an independent token renderer that fills each of 22 inter-token slot kinds with one of 7 whitespace atoms; (1) slot x atom matrix: one slot varied at a time on feature-complete ASTs, (2) every single-possibility shape x group order x 3 spacing policies, (3) random ASTs up to 8x4 with random spacing and optional trailing comma; parsed with Parse and UnmarshalControl and compared structurally. Malformed classes (unterminated ( [ < ${, mixed negation, second version/arch clause, unknown operators, two names without separator) must give an error and a nil result. Non-trivial = AST with at least one restriction, qualifier, substvar or >1 alternative, or any malformed case; distinct by hash of the rendered text."
}
func (c04) Assumptions() []string {
	return []string{"legal spacing = optional whitespace (space, tab, newline) in every slot, as Policy 7.1/5.1 and Dpkg::Deps accept", "architecture values are compared against dependency.ParseArch(name) (what a name denotes is C05/C06)"}
}

func (c04) Batches(tier string, seed uint64) []core.Batch {
	var b []core.Batch
	b = append(b, spread("slot", 11, tierN(tier, 12, 40))...)
	b = append(b, spread("shape", 6, 0)...)
	b = append(b, spread("rand", 16, tierN(tier, 2500, 12000))...)
	b = append(b, spread("malformed", 4, tierN(tier, 1500, 6000))...)
	if tier == "thorough" {
		b = append(b, spread("dpkg-legality", 4, 1500)...)
	}
	return append(b, conc(tierN(tier, 120, 800), "rand")...)
}

func (c04) Mandatory(tier string) []string {
	var m []string
	for _, s := range model.AllSlots {
		for _, a := range model.Atoms {
			if a == "" && !s.EmptyLegal {
				continue
			}
			m = append(m, fmt.Sprintf("slot[%s]=%q", s.Name, a))
		}
	}
	for _, f := range []string{"feat:qualifier", "feat:negated-arch-list", "feat:multi-arch-list", "feat:2+profile-groups", "feat:substvar-first", "feat:substvar-later",
		"feat:trailing-comma", "feat:3+alternatives", "order:vap", "order:vpa", "order:avp", "order:apv", "order:pva", "order:pav"} {
		m = append(m, f)
	}
	for _, o := range gen.Ops {
		m = append(m, "feat:op"+o)
	}
	for _, k := range []string{"unterminated-paren", "unterminated-bracket", "unterminated-angle", "unterminated-substvar", "mixed-negation", "second-version", "second-arch", "unknown-operator", "two-names"} {
		m = append(m, "malformed:"+k)
	}
	return m
}

type c04Case struct {
	Dep      model.MDep `json:"dep"`
	Text     string     `json:"text"`
	Trailing bool       `json:"trailing,omitempty"`
}

// a few feature-complete ASTs so that every slot kind occurs.
func c04Rich(r *core.Rand) model.MDep {
	full := func() model.MPoss {
		p := model.MPoss{Name: gen.PkgName(r), Op: r.Pick(gen.Ops), Ver: "1.2-3", Archs: []string{"amd64", r.Pick(gen.ArchNames[1:5])}, ArchNot: r.Bool(),
			Profiles: [][]model.MStage{{{Name: "stage1"}, {Not: true, Name: "nocheck"}}, {{Not: r.Bool(), Name: "cross"}}}}
		if r.Bool() {
			p.Qual = r.Pick(gen.Quals)
		}
		orders := []string{"vapp", "avpp", "ppva", "pavp", "vppa", "pvap"}
		p.GroupOrder = r.Pick(orders)
		return p
	}
	bare := func() model.MPoss {
		p := model.MPoss{Name: gen.PkgName(r)}
		if r.Chance(1, 3) {
			p.Qual = r.Pick(gen.Quals)
		}
		return p
	}
	one := func(g byte) model.MPoss {
		p := full()
		switch g {
		case 'v':
			p.Archs, p.Profiles, p.GroupOrder = nil, nil, "v"
		case 'a':
			p.Op, p.Ver, p.Profiles, p.GroupOrder = "", "", nil, "a"
		case 'p':
			p.Op, p.Ver, p.Archs, p.GroupOrder = "", "", nil, "pp"
		}
		return p
	}
	return model.MDep{
		{full(), bare(), one('v')},
		{bare()},
		{one('a'), one('p')},
		{one('p'), bare()},
		{full()},
		{bare(), full()},
		{bare()},
	}
}

func (p c04) emit(t *core.T, d model.MDep, sp model.Spacer, used map[[2]string]int, trailing bool) {
	text := d.Render(sp, trailing)
	cs := c04Case{Dep: d, Text: text, Trailing: trailing}
	in, _ := json.Marshal(cs)
	t.Case("ast", in, func(c *core.C) {
		p.checkAST(c, cs)
		if !c.Failed() {
			for k, n := range used {
				t.CoverN(fmt.Sprintf("slot[%s]=%q", k[0], k[1]), int64(n))
			}
		}
	})
}

func (p c04) RunBatch(t *core.T, b core.Batch) {
	if concDispatch(p, t, b) {
		return
	}
	r := t.Rand(b.Name, fmt.Sprint(b.Arg))
	switch b.Name {
	case "slot":
		for si := b.Arg; si < len(model.AllSlots); si += 11 {
			s := model.AllSlots[si]
			for _, a := range model.Atoms {
				if a == "" && !s.EmptyLegal {
					continue
				}
				for k := 0; k < b.N; k++ {
					used := map[[2]string]int{}
					d := c04Rich(r)
					tr := s.Name == model.SlBeforeComma || s.Name == model.SlNameComma
					p.emit(t, d, gen.OneSlotSpacer(s.Name, a, used), used, tr && k%2 == 0)
				}
			}
		}
	case "shape":
		shapes := c04Shapes()
		policies := []model.Spacer{model.Canonical, func(string) string { return "" }, func(s string) string { return "  " }}
		_ = policies
		for i := b.Arg; i < len(shapes); i += 6 {
			for pi := 0; pi < 3; pi++ {
				var sp model.Spacer
				switch pi {
				case 0:
					sp = model.Canonical
				case 1:
					sp = func(s string) string {
						if s == model.SlArchArch || s == model.SlProfProf {
							return " "
						}
						return ""
					}
				default:
					sp = func(s string) string { return " \n\t" }
				}
				p.emit(t, model.MDep{{shapes[i]}}, sp, nil, false)
				p.emit(t, model.MDep{{{Name: "x"}, shapes[i]}, {shapes[i], {Name: "y", Substvar: true}}}, sp, nil, pi == 0)
			}
		}
	case "rand":
		for i := 0; i < b.N; i++ {
			used := map[[2]string]int{}
			var d model.MDep
			if r.Chance(1, 3) {
				d = gen.Dep(r, 8, 4, true)
			} else {
				d = gen.Dep(r, 3, 2, r.Bool())
			}
			var sp model.Spacer
			if r.Chance(1, 4) {
				sp = model.Canonical
			} else {
				sp = gen.RandomSpacer(r, used)
			}
			p.emit(t, d, sp, used, r.Chance(1, 6))
		}
	case "dpkg-legality":
		p.dpkgLegality(t, r, b)
	case "malformed":
		for i := 0; i < b.N; i++ {
			for _, m := range p.malform(r) {
				m := m
				t.Case("malformed", []byte(m[0]+"\x1e"+m[1]), func(c *core.C) { p.checkMalformed(c, m[0], m[1]) })
			}
		}
	}
}

const perlDeps = `use Dpkg::Deps; $|=1;
while (<STDIN>) { chomp; s/\\n/\n/g; s/\\t/\t/g; my $d = eval { deps_parse($_, build_dep=>1, reduce_arch=>0, reduce_restrictions=>0, use_arch=>1, use_profiles=>1) }; print defined($d) ? "ok\n" : "rejected\n"; }`

// dpkgLegality (thorough): generator self-check. Renderings in dpkg's canonical group order
// (version, architectures, profiles; substvars replaced by plain names) with the harness's random
// spacing are fed to Dpkg::Deps::deps_parse; dpkg rejecting a rendering the generator calls legal
// makes the run INCONCLUSIVE (the oracle, not the library, is in doubt).
func (p c04) dpkgLegality(t *core.T, r *core.Rand, b core.Batch) {
	if !have("perl") || exec.Command("perl", "-MDpkg::Deps", "-e", "1").Run() != nil {
		t.Cover("dpkg-legality:Dpkg::Deps-unavailable")
		return
	}
	var lines []string
	for i := 0; i < b.N; i++ {
		d := gen.Dep(r, 4, 3, true)
		for ri := range d {
			for pi := range d[ri] {
				ps := &d[ri][pi]
				if ps.Substvar {
					*ps = model.MPoss{Name: "substvar-replaced"}
				}
				ps.GroupOrder = ""
				ps.Normalise()
				if len(ps.Name) > 60 { // dpkg has no length limit, but keep lines readable
					ps.Name = ps.Name[:60] + "x"
				}
				for k := range ps.Archs { // dpkg only knows real Debian architectures and wildcards
					ps.Archs[k] = []string{"amd64", "i386", "linux-any", "any-amd64", "kfreebsd-any", "arm64"}[(k+pi)%6]
				}
				if ps.Qual != "" {
					ps.Qual = []string{"any", "native", "amd64"}[pi%3]
				}
			}
		}
		text := d.Render(gen.RandomSpacer(r, nil), false)
		lines = append(lines, strings.NewReplacer("\n", "\\n", "\t", "\\t").Replace(text))
	}
	script := filepath.Join(t.WorkDir, "deps.pl")
	os.WriteFile(script, []byte(perlDeps), 0o644)
	t.Case("dpkg-legality", []byte(fmt.Sprintf("batch %d", b.Arg)), func(c *core.C) {
		cmd := exec.Command("perl", script)
		cmd.Stdin = strings.NewReader(strings.Join(lines, "\n") + "\n")
		out, err := cmd.Output()
		res := strings.Split(strings.TrimSpace(string(out)), "\n")
		if err != nil || len(res) != len(lines) {
			c.Cover("dpkg-legality:perl-run-failed")
			return
		}
		for i, l := range res {
			t.Light(1)
			if l == "ok" {
				c.Cover("dpkg-legality:accepted-by-Dpkg::Deps")
			} else {
				c.Cover("~inconclusive:Dpkg::Deps rejects a rendering the generator calls legal (generator self-check)")
				t.AddSample("dpkg-rejected", lines[i], "")
			}
		}
	})
}

// c04Shapes: every presence subset x every group order for one possibility.
func c04Shapes() []model.MPoss {
	var out []model.MPoss
	for _, q := range []string{"", "any", "linux-any"} {
		for v := 0; v < 2; v++ {
			for a := 0; a < 3; a++ {
				for pg := 0; pg < 3; pg++ {
					base := model.MPoss{Name: "pkg-a", Qual: q}
					groups := ""
					if v == 1 {
						base.Op, base.Ver = gen.Ops[(a+pg)%5], "2:1.0~rc1-1"
						groups += "v"
					}
					switch a {
					case 1:
						base.Archs = []string{"amd64"}
						groups += "a"
					case 2:
						base.Archs, base.ArchNot = []string{"i386", "kfreebsd-any", "arm64"}, true
						groups += "a"
					}
					for k := 0; k < pg; k++ {
						base.Profiles = append(base.Profiles, []model.MStage{{Name: "stage1", Not: k == 1}, {Name: fmt.Sprintf("p%d", k)}}[:k+1])
						groups += "p"
					}
					for _, o := range permutations(groups) {
						s := base
						s.GroupOrder = o
						out = append(out, s)
					}
				}
			}
		}
	}
	return out
}

func permutations(s string) []string {
	if len(s) <= 1 {
		return []string{s}
	}
	seen := map[string]bool{}
	var out []string
	for i := 0; i < len(s); i++ {
		rest := s[:i] + s[i+1:]
		for _, p := range permutations(rest) {
			x := string(s[i]) + p
			if !seen[x] {
				seen[x] = true
				out = append(out, x)
			}
		}
	}
	return out
}

// diffDep compares a parse result with the AST; returns "" if equal.
func diffDep(got *dependency.Dependency, want model.MDep) string {
	if got == nil {
		return "nil result"
	}
	if len(got.Relations) != len(want) {
		return fmt.Sprintf("%d relations, want %d", len(got.Relations), len(want))
	}
	for ri, rel := range want {
		g := got.Relations[ri]
		if len(g.Possibilities) != len(rel) {
			return fmt.Sprintf("relation %d: %d alternatives, want %d", ri, len(g.Possibilities), len(rel))
		}
		for pi, w := range rel {
			if d := diffPoss(g.Possibilities[pi], w); d != "" {
				return fmt.Sprintf("relation %d alternative %d: %s", ri, pi, d)
			}
		}
	}
	return ""
}

func diffPoss(g dependency.Possibility, w model.MPoss) string {
	if g.Name != w.Name {
		return fmt.Sprintf("name %q, want %q", g.Name, w.Name)
	}
	if g.Substvar != w.Substvar {
		return fmt.Sprintf("substvar flag %v, want %v", g.Substvar, w.Substvar)
	}
	if w.Qual == "" {
		if g.Arch != nil {
			return fmt.Sprintf("qualifier %+v, want none", *g.Arch)
		}
	} else {
		wa, err := dependency.ParseArch(w.Qual)
		if err != nil || g.Arch == nil || *g.Arch != *wa {
			return fmt.Sprintf("qualifier %+v, want %q", g.Arch, w.Qual)
		}
	}
	if w.Op == "" {
		if g.Version != nil {
			return fmt.Sprintf("version constraint %+v, want none", *g.Version)
		}
	} else if g.Version == nil || g.Version.Operator != w.Op || g.Version.Number != w.Ver {
		return fmt.Sprintf("version constraint %+v, want (%s %s)", g.Version, w.Op, w.Ver)
	}
	var ga []dependency.Arch
	gnot := false
	if g.Architectures != nil {
		ga, gnot = g.Architectures.Architectures, g.Architectures.Not
	}
	if len(ga) != len(w.Archs) {
		return fmt.Sprintf("%d architectures %+v, want %v", len(ga), ga, w.Archs)
	}
	for i, n := range w.Archs {
		wa, err := dependency.ParseArch(n)
		if err != nil || ga[i] != *wa {
			return fmt.Sprintf("architecture %d is %+v, want %q", i, ga[i], n)
		}
	}
	if len(w.Archs) > 0 && gnot != w.ArchNot {
		return fmt.Sprintf("architecture negation %v, want %v", gnot, w.ArchNot)
	}
	if len(w.Archs) == 0 && gnot {
		return "negation flag set on an absent architecture list"
	}
	if len(g.StageSets) != len(w.Profiles) {
		return fmt.Sprintf("%d profile groups %+v, want %d", len(g.StageSets), g.StageSets, len(w.Profiles))
	}
	for i, grp := range w.Profiles {
		gs := g.StageSets[i].Stages
		if len(gs) != len(grp) {
			return fmt.Sprintf("profile group %d has %d terms %+v, want %+v", i, len(gs), gs, grp)
		}
		for k, s := range grp {
			if gs[k].Name != s.Name || gs[k].Not != s.Not {
				return fmt.Sprintf("profile group %d term %d is %+v, want %+v", i, k, gs[k], s)
			}
		}
	}
	return ""
}

func (c04) checkAST(c *core.C, cs c04Case) {
	got, err := dependency.Parse(cs.Text)
	if err != nil {
		c.Failf("Parse(%q) rejected a well-formed field: %v", cs.Text, err)
	} else if d := diffDep(got, cs.Dep); d != "" {
		c.Failf("Parse(%q): %s", cs.Text, d)
	}
	var u dependency.Dependency
	if err := u.UnmarshalControl(cs.Text); err != nil {
		c.Failf("UnmarshalControl(%q) rejected a well-formed field: %v", cs.Text, err)
	} else if d := diffDep(&u, cs.Dep); d != "" {
		c.Failf("UnmarshalControl(%q): %s", cs.Text, d)
	}
	// ... and into a variable that already holds another field (a struct reused across paragraphs)
	var re dependency.Dependency
	if re.UnmarshalControl("old-a (>= 1) [amd64] | old-b, old-c") == nil {
		if err := re.UnmarshalControl(cs.Text); err != nil {
			c.Failf("UnmarshalControl(%q) into a variable that held another field failed: %v", cs.Text, err)
		} else if d := diffDep(&re, cs.Dep); d != "" {
			c.Failf("UnmarshalControl(%q) into a variable that held another field: %s", cs.Text, d)
		}
		c.Cover("entry:UnmarshalControl-reused-receiver")
		// ... while the caller still holds what the variable held before (he copied the struct, as one does with
		// values): a later decode into the variable must not reach into that copy
		held := re
		if err := re.UnmarshalControl("new-x, new-y (<< 2) | new-z, new-w"); err == nil {
			if d := diffDep(&held, cs.Dep); d != "" {
				c.Failf("a copy of the value decoded from %q changed when another field was decoded into the variable it was copied from: %s", cs.Text, d)
			}
		}
	}
	nontrivial := false
	for _, rel := range cs.Dep {
		if len(rel) > 1 {
			nontrivial = true
		}
		if len(rel) >= 3 {
			c.Cover("feat:3+alternatives")
		}
		for i, p := range rel {
			if p.Substvar {
				nontrivial = true
				if i == 0 {
					c.Cover("feat:substvar-first")
				} else {
					c.Cover("feat:substvar-later")
				}
				continue
			}
			if p.Qual != "" {
				c.Cover("feat:qualifier")
				nontrivial = true
			}
			if p.Op != "" {
				c.Cover("feat:op" + p.Op)
			}
			if len(p.Archs) > 0 && p.ArchNot {
				c.Cover("feat:negated-arch-list")
			}
			if len(p.Archs) > 1 {
				c.Cover("feat:multi-arch-list")
			}
			if len(p.Profiles) >= 2 {
				c.Cover("feat:2+profile-groups")
			}
			if p.GroupOrder != "" {
				nontrivial = true
				o := strings.Replace(strings.Replace(p.GroupOrder, "p", "P", 1), "p", "", -1)
				o = strings.ToLower(o)
				if len(o) == 3 {
					c.Cover("order:" + o)
				}
			}
		}
	}
	if cs.Trailing {
		c.Cover("feat:trailing-comma")
	}
	if nontrivial {
		c.Nontrivial()
	}
}

// malform returns (class, text) definitely-malformed fields.
func (c04) malform(r *core.Rand) [][2]string {
	name := gen.PkgName(r)
	other := gen.PkgName(r)
	pre := ""
	if r.Bool() {
		pre = other + ", "
	}
	post := ""
	if r.Bool() {
		post = r.Pick([]string{", " + other, " | " + other, ","})
	}
	badop := r.Pick([]string{"~=", "==", "=>", "=<", "!=", "<>", "><", "~>", "eq", "=="})
	sp := r.Pick([]string{"", " "})
	return [][2]string{
		{"unterminated-paren", pre + name + " (" + r.Pick(gen.Ops) + " 1.0" + r.Pick([]string{"", " ", " [amd64]", ", " + other})},
		{"unterminated-bracket", pre + name + " [" + r.Pick([]string{"amd64", "!amd64 !i386", "amd64 ", ""}) + r.Pick([]string{"", " ", " <stage1>", " (>= 1)"})},
		{"unterminated-angle", pre + name + " <" + r.Pick([]string{"stage1", "!stage1 cross", "stage1 ", ""}) + r.Pick([]string{"", " "})},
		{"unterminated-substvar", pre + "${" + r.Pick([]string{"shlibs:Depends", "misc:Depends", ""}) + r.Pick([]string{"", " "})},
		{"mixed-negation", pre + name + " [" + r.Pick([]string{"!amd64 i386", "amd64 !i386", "!amd64 !i386 arm64", "amd64 i386 !arm64"}) + "]" + post},
		{"second-version", pre + name + " (>= 1.0)" + r.Pick([]string{" ", "", " [amd64] "}) + "(<< 2.0)" + post},
		{"second-arch", pre + name + " [amd64]" + r.Pick([]string{" ", "", " (>= 1) ", " <stage1> "}) + "[i386]" + post},
		{"unknown-operator", pre + name + " (" + badop + sp + "1.0)" + post},
		// no operator at all (what is left of "(= 1.0)" after a one-character deletion)
		{"unknown-operator", pre + name + " (" + sp + r.Pick([]string{"1.0", "2:1.0~rc1", "0", "1.0-1"}) + ")" + post},
		{"two-names", pre + name + r.Pick([]string{" ", "  ", " (>= 1) ", " [amd64] ", " <stage1> ", "\n", "\r\n", "\t", "\n ", " \n", "\n\n"}) + other + post},
		{"two-names", r.Pick([]string{"", other + ", ", other + " | "}) + name + r.Pick([]string{"\n", "\r\n", "\t", " "}) + other + r.Pick([]string{"", ", " + name, "\n"})},
	}
}

func (c04) checkMalformed(c *core.C, class, text string) {
	c.Cover("malformed:" + class)
	c.Nontrivial()
	got, err := dependency.Parse(text)
	if err == nil {
		c.Failf("Parse(%q) accepted a malformed field (class %s) as %q", text, class, got.String())
	} else if got != nil {
		c.Failf("Parse(%q) returned an error together with a non-nil result", text)
	}
	var u dependency.Dependency
	if err := u.UnmarshalControl(text); err == nil {
		c.Failf("UnmarshalControl(%q) accepted a malformed field (class %s)", text, class)
	}
}

func (p c04) RunCase(t *core.T, kind string, input []byte) {
	switch kind {
	case "ast":
		var cs c04Case
		if json.Unmarshal(input, &cs) == nil {
			t.Case(kind, input, func(c *core.C) { p.checkAST(c, cs) })
		}
	case "malformed":
		parts := strings.SplitN(string(input), "\x1e", 2)
		if len(parts) == 2 {
			t.Case(kind, input, func(c *core.C) { p.checkMalformed(c, parts[0], parts[1]) })
		}
	}
}
