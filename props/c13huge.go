package props

import (
	"fmt"
	"io"

	"pault.ag/go/debian/deb"

	"verif/internal/core"
	"verif/internal/model"
)

// A well-formed archive with a member of 2 GiB, 4 GiB or more - what a .deb with a large payload is - without
// allocating it: a synthetic io.ReaderAt computes every byte. Members: small, HUGE (odd or even size), small.
// Offsets and sizes beyond 2^31 and 2^32 must survive every step (header parsing, section readers, the
// offset of the member after the huge one).

type sparseAr struct {
	head1, head2, head3 []byte
	d1, d3              []byte
	hugeSize            int64
	size                int64
}

func hugeByte(off int64) byte { return byte(off*2654435761>>11) ^ byte(off>>32) }

func newSparseAr(hugeSize int64) *sparseAr {
	s := &sparseAr{hugeSize: hugeSize, d1: []byte("2.0\n"), d3: []byte("the member after the huge one\n")}
	m1 := model.ArMember{Name: "debian-binary", Timestamp: 1700000000, Mode: "100644", Data: s.d1}
	m3 := model.ArMember{Name: "trailer", Timestamp: 4102444800, Mode: "100644", Data: s.d3}
	s.head1, s.head3 = m1.ArHeader(), m3.ArHeader()
	s.head2 = []byte(fmt.Sprintf("%-16s%-12d%-6d%-6d%-8s%-10d`\n", "data.tar", 1700000000, 0, 0, "100644", hugeSize))
	s.size = 8 + 60 + int64(len(s.d1)) + 60 + hugeSize + hugeSize%2 + 60 + int64(len(s.d3))
	return s
}

func (s *sparseAr) at(off int64) (byte, bool) {
	if off < 0 || off >= s.size {
		return 0, false
	}
	seg := []struct {
		b []byte
		n int64
	}{{[]byte("!<arch>\n"), 8}, {s.head1, 60}, {s.d1, int64(len(s.d1))}, {s.head2, 60}, {nil, s.hugeSize}, {[]byte("\n"), s.hugeSize % 2}, {s.head3, 60}, {s.d3, int64(len(s.d3))}}
	for _, g := range seg {
		if off < g.n {
			if g.b == nil {
				return hugeByte(off), true
			}
			return g.b[off], true
		}
		off -= g.n
	}
	return 0, false
}

func (s *sparseAr) ReadAt(p []byte, off int64) (int, error) {
	for i := range p {
		b, ok := s.at(off + int64(i))
		if !ok {
			return i, io.EOF
		}
		p[i] = b
	}
	return len(p), nil
}

func (p c13) hugeCase(c *core.C, hugeSize int64) {
	src := newSparseAr(hugeSize)
	ar, err := deb.LoadAr(src)
	if err != nil {
		c.Failf("LoadAr failed on a well-formed archive with a %d-byte member: %v", hugeSize, err)
		return
	}
	var es []*deb.ArEntry
	for i := 0; i < 5; i++ {
		e, err := ar.Next()
		if err == io.EOF {
			break
		}
		if err != nil {
			c.Failf("Next() #%d failed on a well-formed archive with a %d-byte member: %v", i, hugeSize, err)
			return
		}
		es = append(es, e)
	}
	if len(es) != 3 {
		c.Failf("iteration returned %d members of an archive with 3 (the second is %d bytes long)", len(es), hugeSize)
		return
	}
	if es[1].Name != "data.tar" || es[1].Size != hugeSize || es[1].Data == nil || es[1].Data.Size() != hugeSize {
		c.Failf("the %d-byte member came back as name %q size %d", hugeSize, es[1].Name, es[1].Size)
		return
	}
	if es[2].Name != "trailer" || es[2].Size != int64(len(src.d3)) || es[2].Timestamp != 4102444800 {
		c.Failf("the member after the %d-byte one came back as name %q size %d mtime %d", hugeSize, es[2].Name, es[2].Size, es[2].Timestamp)
		return
	}
	got, err := io.ReadAll(es[2].Data)
	if err != nil || string(got) != string(src.d3) {
		c.Failf("the member after the %d-byte one reads %q (err %v)", hugeSize, got, err)
	}
	// the huge member at its ends and around the 2 GiB / 4 GiB marks
	for _, off := range []int64{0, 1<<31 - 3, 1<<32 - 3, hugeSize - 7} {
		if off < 0 || off+7 > hugeSize {
			continue
		}
		buf := make([]byte, 7)
		n, err := es[1].Data.ReadAt(buf, off)
		ok := n == 7 && (err == nil || err == io.EOF)
		for i := 0; ok && i < 7; i++ {
			ok = buf[i] == hugeByte(off+int64(i))
		}
		if !ok {
			c.Failf("reading 7 bytes at offset %d of the %d-byte member gives %d bytes %x (err %v), not the archive's", off, hugeSize, n, buf[:n], err)
		}
		if _, err := es[1].Data.Seek(off, io.SeekStart); err == nil {
			if n, _ := io.ReadFull(es[1].Data, buf); n != 7 || buf[0] != hugeByte(off) || buf[6] != hugeByte(off+6) {
				c.Failf("Seek(%d)+Read on the %d-byte member does not deliver the archive's bytes", off, hugeSize)
			}
		} else {
			c.Failf("Seek(%d) on the %d-byte member: %v", off, hugeSize, err)
		}
	}
	c.Cover(fmt.Sprintf("size:>=%dGiB", hugeSize>>30))
	c.Nontrivial()
}
