package props

import (
	"bufio"
	"crypto/sha256"
	"encoding/json"
	"fmt"
	"os"
	"os/signal"
	"path/filepath"
	"runtime"
	"sort"
	"strings"
	"syscall"

	"pault.ag/go/debian/control"

	"verif/internal/core"
)

// C20 — Copy/Move/Remove act on the control file last and stay in-directory.
type c20 struct{}

func init() { core.Register(c20{}) }

func (c20) ID() string    { return "C20" }
func (c20) Level() string { return "fault_enumeration" }
func (c20) Rule() string {
	return "each scenario runs in a fresh tree base/{up/src, up/secret.txt, other/, dst}: a .dsc or .changes in up/src listing k=0..5 files. Operation in {Copy, Move, Remove} x handle in {.dsc, .changes} x fault: none; referenced file i missing (every i); destination name of file i occupied by a non-empty directory (every i and the control file itself); destination missing; destination a regular file; the copy of the control file itself cut short by a file-size limit (RLIMIT_FSIZE, EFBIG mid-way). Hostile listed names: ../secret.txt, sub/../../secret.txt, ../../other/o.txt, /abs/x, sub/inner.txt, and the directory-designating ../, ..//, ./, /, sub/, ../../other/, sub/.., mixed with plain names; and the control file listing itself ahead of ordinary files. Monitors: the kernel's ordered inotify queue of dst and src (control file appears only after every referenced file's close/move; deleted last), tree snapshots path->sha256 before/after (success: byte-identical files, handle points at the new location; failure: error returned, no control file in dst, for Move still at its source; always: everything outside up/src and dst unchanged, nothing in dst carries an outside file's content). Non-trivial = every scenario with k >= 1 or a fault; distinct by hash of the scenario."
}
func (c20) Assumptions() []string {
	return []string{"Linux inotify event order = order of appearance for a directory watcher", "RLIMIT_FSIZE makes write/copy_file_range fail with EFBIG exactly as a full disk would with ENOSPC"}
}

func (c20) Batches(tier string, seed uint64) []core.Batch {
	var b []core.Batch
	b = append(b, spread("ok", 4, tierN(tier, 72, 400))...)
	b = append(b, spread("fault", 4, tierN(tier, 120, 600))...)
	b = append(b, spread("hostile", 4, tierN(tier, 60, 300))...)
	b = append(b, spread("sequence", 2, tierN(tier, 24, 120))...)
	if tier == "thorough" {
		b = append(b, spread("strace", 8, 12)...)
	}
	return b
}

func (c20) Mandatory(tier string) []string {
	var m []string
	for _, op := range []string{"Copy", "Move", "Remove"} {
		for _, h := range []string{"dsc", "changes"} {
			m = append(m, "ok:"+op+":"+h)
		}
	}
	for _, op := range []string{"Copy", "Move"} {
		for _, f := range []string{"missing-source", "missing-control-file", "dest-occupied", "dest-occupied-control", "dest-missing", "dest-is-file"} {
			m = append(m, "fault:"+op+":"+f)
		}
	}
	if tier == "thorough" && have("strace") {
		m = append(m, "strace:syscalls-observed", "strace:dry-run:Copy", "strace:dry-run:Move", "strace:dry-run:Remove", "strace:injected:Copy", "strace:injected:Move", "strace:injected:Remove")
	}
	return append(m, "fault:Copy:control-copy-cut-short", "fault:Remove:missing-source", "k:0", "k:1", "k:2+", "order:copy-control-after-all-closed", "order:move-control-last",
		"order:remove-control-last", "hostile:../secret.txt", "hostile:sub/../../secret.txt", "hostile:../../other/o.txt", "hostile:/abs/x", "hostile:sub/inner.txt", "hostile:../", "hostile:..//", "hostile:./", "hostile:/", "hostile:sub/", "hostile:../../other/", "hostile:sub/..", "hostile:..", "hostile:.", "inotify-events-seen", "dest-has-longer-files-of-the-same-names", "hostile:only-in-checksum-fields", "hostile:control-file-lists-itself", "sequence:harmless-upload-through-the-same-path-first", "handle:reader-entry-point-with-unclean-path", "handle:relative-paths", "dest:spelled-with-trailing-slash", "dest:spelled-with-trailing-dot", "dest:spelled-through-a-subdirectory-and-dotdot", "handle:control-file-is-a-symlink", "env:GOMAXPROCS=1", "sequence:Copy then Remove", "sequence:Copy then Move", "sequence:Move then Remove", "sequence:Move then Move")
}

type c20Case struct {
	Op       string   `json:"op"`
	Handle   string   `json:"handle"`
	Names    []string `json:"names"`              // listed names, in order
	Fault    string   `json:"fault"`              // none | missing-source:i | dest-occupied:i | dest-missing | dest-is-file | control-copy-cut-short
	Pre      bool     `json:"pre,omitempty"`      // the destination already holds (longer) files of the same names
	SumNames []string `json:"sumnames,omitempty"` // names listed ONLY in Checksums-Sha1/-Sha256 (never in Files)
	Then     string   `json:"then,omitempty"`     // a second operation on the same handle after a successful first one: Remove | Move
	Prime    bool     `json:"prime,omitempty"`    // first a harmless upload with as many files goes through the same path and operation
	Link     bool     `json:"link,omitempty"`     // the control file in the upload directory is a symbolic link to a file elsewhere
	Seed     uint64   `json:"seed"`
}

type upload interface {
	Copy(string) error
	Move(string) error
	Remove() error
}

func snapshot(root string) map[string]string {
	out := map[string]string{}
	filepath.Walk(root, func(p string, info os.FileInfo, err error) error {
		if err != nil {
			return nil
		}
		rel, _ := filepath.Rel(root, p)
		switch {
		case info.IsDir():
			out[rel] = "dir"
		case info.Mode().IsRegular():
			b, _ := os.ReadFile(p)
			out[rel] = fmt.Sprintf("%x", sha256.Sum256(b))
		case info.Mode()&os.ModeSymlink != 0:
			// a link to a regular file counts by the content it leads to (a moved link still leads there)
			if b, err := os.ReadFile(p); err == nil {
				out[rel] = fmt.Sprintf("%x", sha256.Sum256(b))
			} else {
				out[rel] = "other:dangling-link"
			}
		default:
			out[rel] = "other:" + info.Mode().String()
		}
		return nil
	})
	return out
}

func (p c20) run(c *core.C, t *core.T, cs c20Case) {
	r := core.NewRand(cs.Seed, "c20")
	base, err := os.MkdirTemp(t.WorkDir, "c20-")
	if err != nil {
		c.Failf("harness: %v", err)
		return
	}
	defer os.RemoveAll(base)
	src, dst := filepath.Join(base, "up", "src"), filepath.Join(base, "dst")
	os.MkdirAll(filepath.Join(src, "sub"), 0o755)
	os.MkdirAll(filepath.Join(base, "other"), 0o755)
	os.MkdirAll(dst, 0o755)
	write := func(path string, n int) { os.WriteFile(path, r.Bytes(n), 0o644) }
	if cs.Prime {
		// the same control-file path saw a harmless upload with the same number of files a moment ago (the
		// next upload of an incoming queue): nothing learnt then may excuse this one
		ext := map[string]string{"dsc": ".dsc", "changes": ".changes"}[cs.Handle]
		var sb strings.Builder
		if cs.Handle == "dsc" {
			sb.WriteString("Format: 3.0 (quilt)\nSource: pkg\nBinary: pkg\nArchitecture: any\nVersion: 1.0-1\nMaintainer: A <a@example.org>\nFiles:\n")
		} else {
			sb.WriteString("Format: 1.8\nSource: pkg\nBinary: pkg\nArchitecture: source\nVersion: 1.0-1\nDistribution: unstable\nMaintainer: A <a@example.org>\nChanges:\n pkg (1.0-1) unstable; urgency=low\nFiles:\n")
		}
		var primed []string
		for i := range cs.Names {
			n := fmt.Sprintf("prime_%d.bin", i)
			primed = append(primed, n)
			write(filepath.Join(src, n), 50)
			if cs.Handle == "dsc" {
				sb.WriteString(fmt.Sprintf(" d41d8cd98f00b204e9800998ecf8427e 50 %s\n", n))
			} else {
				sb.WriteString(fmt.Sprintf(" d41d8cd98f00b204e9800998ecf8427e 50 misc optional %s\n", n))
			}
		}
		pp := filepath.Join(src, "pkg_1.0-1"+ext)
		os.WriteFile(pp, []byte(sb.String()), 0o644)
		pd := filepath.Join(base, "prime-dst")
		os.MkdirAll(pd, 0o755)
		var up0 upload
		if cs.Handle == "dsc" {
			if d, err := control.ParseDscFile(pp); err == nil {
				up0 = d
			}
		} else if ch, err := control.ParseChangesFile(pp); err == nil {
			up0 = ch
		}
		if up0 != nil {
			switch cs.Op {
			case "Remove":
				up0.Remove()
			default:
				up0.Copy(pd) // Copy leaves the source in place for the clean-up below; Move shares its name check
				if cs.Op == "Move" {
					if cs.Handle == "dsc" {
						if d, err := control.ParseDscFile(pp); err == nil {
							d.Move(pd)
						}
					} else if ch, err := control.ParseChangesFile(pp); err == nil {
						ch.Move(pd)
					}
				}
			}
			c.Cover("sequence:harmless-upload-through-the-same-path-first")
		}
		os.RemoveAll(pd)
		os.Remove(pp)
		for _, n := range primed {
			os.Remove(filepath.Join(src, n))
		}
	}
	write(filepath.Join(base, "up", "secret.txt"), 300)
	write(filepath.Join(base, "other", "o.txt"), 310)
	write(filepath.Join(src, "sub", "inner.txt"), 120)
	write(filepath.Join(src, "unlisted.txt"), 90)
	// the control file
	ext := map[string]string{"dsc": ".dsc", "changes": ".changes"}[cs.Handle]
	ctlName := "pkg_1.0-1" + ext
	var sb strings.Builder
	if cs.Handle == "dsc" {
		sb.WriteString("Format: 3.0 (quilt)\nSource: pkg\nBinary: pkg\nArchitecture: any\nVersion: 1.0-1\nMaintainer: A <a@example.org>\nFiles:\n")
		for _, n := range cs.Names {
			sb.WriteString(fmt.Sprintf(" d41d8cd98f00b204e9800998ecf8427e 100 %s\n", n))
		}
	} else {
		sb.WriteString("Format: 1.8\nSource: pkg\nBinary: pkg\nArchitecture: source\nVersion: 1.0-1\nDistribution: unstable\nMaintainer: A <a@example.org>\nChanges:\n pkg (1.0-1) unstable; urgency=low\nFiles:\n")
		for _, n := range cs.Names {
			sb.WriteString(fmt.Sprintf(" d41d8cd98f00b204e9800998ecf8427e 100 misc optional %s\n", n))
		}
	}
	if len(cs.SumNames) > 0 {
		for _, fld := range []string{"Checksums-Sha1", "Checksums-Sha256"} {
			sb.WriteString(fld + ":\n")
			hl := map[string]int{"Checksums-Sha1": 40, "Checksums-Sha256": 64}[fld]
			for _, n := range append(append([]string{}, cs.Names...), cs.SumNames...) {
				sb.WriteString(fmt.Sprintf(" %s 100 %s\n", strings.Repeat("a", hl), n))
			}
		}
	}
	sb.WriteString("X-Padding: " + strings.Repeat("x", 9000) + "\n") // larger than any referenced file
	ctlPath := filepath.Join(src, ctlName)
	os.WriteFile(ctlPath, []byte(sb.String()), 0o644)
	if cs.Link {
		// queue/foo.dsc -> ../pool/foo.dsc: the upload is where the link is; the directory of the link's target holds
		// other files of the same names, which are none of this upload's business
		real := filepath.Join(base, "other", ctlName)
		os.Rename(ctlPath, real)
		os.Symlink(real, ctlPath)
		for _, n := range cs.Names {
			if !strings.ContainsAny(n, "/") && n != ctlName {
				write(filepath.Join(base, "other", n), 77)
			}
		}
		c.Cover("handle:control-file-is-a-symlink")
	}
	plain := func(n string) bool { return !strings.ContainsAny(n, "/") && n != "." && n != ".." } // (a name that designates a directory is not a file name)
	for _, n := range cs.Names {
		if plain(n) && n != ctlName {
			// (now and then a size at a block boundary of copy loops: 32 KiB, 64 KiB, one less, one more)
			size := r.Pick3(r.Range(0, 400), r.Range(0, 400), 32768, 65536, 32767, 32769, 4096)
			if cs.Fault == "control-copy-cut-short" {
				size %= 401 // the file-size limit that cuts the control file short must let the referenced files through
			}
			write(filepath.Join(src, n), size)
		}
	}
	// faults
	fkind, fidx := cs.Fault, -1
	if i := strings.IndexByte(cs.Fault, ':'); i >= 0 {
		fkind = cs.Fault[:i]
		fmt.Sscanf(cs.Fault[i+1:], "%d", &fidx)
	}
	dest := dst
	switch fkind {
	case "missing-source":
		if fidx < len(cs.Names) {
			os.Remove(filepath.Join(src, cs.Names[fidx]))
		}
		// fidx == len(Names): the control file itself disappears after it was parsed (see below)
	case "dest-occupied":
		name := ctlName
		if fidx < len(cs.Names) {
			name = filepath.Base(cs.Names[fidx])
		}
		os.MkdirAll(filepath.Join(dst, name), 0o755)
		write(filepath.Join(dst, name, "occupant"), 10)
	case "dest-missing":
		dest = filepath.Join(base, "nonexistent")
	case "dest-is-file":
		dest = filepath.Join(base, "plainfile")
		write(dest, 5)
	}
	// parse the handle
	var up upload
	var filename func() string
	// the handle comes from the ...File entry point, or from the reader entry point with the path the caller
	// happens to have - not necessarily in its cleaned form
	handlePath := ctlPath
	viaReader := cs.Seed%3 == 0
	// ... or everything is named relative to the current directory (cd incoming; tool up/src/x.changes dst)
	rel := !viaReader && cs.Seed%5 == 1
	destArg := dest
	if rel {
		if wd, err := os.Getwd(); err == nil && os.Chdir(base) == nil {
			defer os.Chdir(wd)
			handlePath, _ = filepath.Rel(base, ctlPath)
			destArg, _ = filepath.Rel(base, dest)
			c.Cover("handle:relative-paths")
		} else {
			rel = false
		}
	}
	// the destination as callers spell it: with a trailing slash, a trailing "/.", or through a sub-directory and
	// ".." (tab completion, "$incoming/.."): all name the same directory
	if fkind != "dest-missing" && fkind != "dest-is-file" {
		switch cs.Seed % 7 {
		case 2:
			destArg += "/"
			c.Cover("dest:spelled-with-trailing-slash")
		case 3:
			destArg += "/."
			c.Cover("dest:spelled-with-trailing-dot")
		case 4:
			if os.Mkdir(filepath.Join(dest, "zz.d"), 0o755) == nil {
				destArg += "/zz.d/.."
				c.Cover("dest:spelled-through-a-subdirectory-and-dotdot")
			}
		}
	}
	if viaReader {
		handlePath = []string{src + "//" + ctlName, src + "/./" + ctlName, filepath.Join(src, "sub") + "/../" + ctlName}[(cs.Seed/3)%3]
		c.Cover("handle:reader-entry-point-with-unclean-path")
	}
	if cs.Handle == "dsc" {
		var d *control.DSC
		var err error
		if viaReader {
			d, err = control.ParseDsc(bufio.NewReader(strings.NewReader(sb.String())), handlePath)
		} else {
			d, err = control.ParseDscFile(handlePath)
		}
		if err != nil {
			c.Failf("ParseDsc(File): %v", err)
			return
		}
		up, filename = d, func() string { return d.Filename }
	} else {
		var ch *control.Changes
		var err error
		if viaReader {
			ch, err = control.ParseChanges(bufio.NewReader(strings.NewReader(sb.String())), handlePath)
		} else {
			ch, err = control.ParseChangesFile(handlePath)
		}
		if err != nil {
			c.Failf("ParseChanges(File): %v", err)
			return
		}
		up, filename = ch, func() string { return ch.Filename }
	}
	if fkind == "missing-source" && fidx >= len(cs.Names) {
		os.Remove(ctlPath)
	}
	if cs.Pre { // a re-upload: longer files of the same names are already there
		for _, n := range append([]string{ctlName}, cs.Names...) {
			if plain(n) {
				write(filepath.Join(dst, n), 12000+r.Intn(3000))
			}
		}
		c.Cover("dest-has-longer-files-of-the-same-names")
	}
	before := snapshot(base)
	ino, ierr := core.NewInotify()
	wdDst, wdSrc := -1, -1
	if ierr == nil {
		defer ino.Close()
		if fkind != "dest-missing" && fkind != "dest-is-file" {
			wdDst, _ = ino.Watch(dst)
		}
		wdSrc, _ = ino.Watch(src)
	}
	// run the operation - now and then with a single processor, as on a small build machine
	if cs.Seed%7 == 2 {
		oldProcs := runtime.GOMAXPROCS(1)
		defer runtime.GOMAXPROCS(oldProcs)
		c.Cover("env:GOMAXPROCS=1")
	}
	var opErr error
	if fkind == "control-copy-cut-short" {
		signal.Ignore(syscall.SIGXFSZ)
		var old syscall.Rlimit
		syscall.Getrlimit(syscall.RLIMIT_FSIZE, &old)
		syscall.Setrlimit(syscall.RLIMIT_FSIZE, &syscall.Rlimit{Cur: 4096, Max: old.Max})
		opErr = up.Copy(destArg)
		syscall.Setrlimit(syscall.RLIMIT_FSIZE, &old)
	} else {
		switch cs.Op {
		case "Copy":
			opErr = up.Copy(destArg)
		case "Move":
			opErr = up.Move(destArg)
		case "Remove":
			opErr = up.Remove()
		}
	}
	// a second operation on the same handle
	secondDesc := ""
	dst2 := filepath.Join(base, "dst2")
	if cs.Then != "" && opErr == nil && cs.Op != "Remove" {
		mid := snapshot(base)
		var err2 error
		switch cs.Then {
		case "Remove":
			err2 = up.Remove()
		case "Move":
			os.MkdirAll(dst2, 0o755)
			err2 = up.Move(dst2)
		}
		fin := snapshot(base)
		secondDesc = cs.Op + " then " + cs.Then
		if err2 != nil {
			c.Failf("%s: the second operation failed: %v", secondDesc, err2)
		}
		relD, relS, relD2 := "dst", filepath.Join("up", "src"), "dst2"
		for _, n := range append([]string{ctlName}, cs.Names...) {
			// the handle points at dst after the first operation: the second one acts THERE
			if _, still := fin[filepath.Join(relD, n)]; still {
				c.Failf("%s: %q is still in the first destination - the second operation did not act on the handle's new location", secondDesc, n)
			}
			if cs.Op == "Copy" && fin[filepath.Join(relS, n)] != mid[filepath.Join(relS, n)] {
				c.Failf("%s: the second operation touched the ORIGINAL %q in the source directory (handle still points at the old location?)", secondDesc, n)
			}
			if cs.Then == "Move" && fin[filepath.Join(relD2, n)] != mid[filepath.Join(relD, n)] {
				c.Failf("%s: %q did not arrive intact in the second destination", secondDesc, n)
			}
		}
		c.Cover("sequence:" + secondDesc)
		// restore what the single-operation checks below expect to see
		os.RemoveAll(dst2)
	}
	after := snapshot(base)
	if secondDesc != "" {
		// the single-operation post-conditions below no longer apply to the final tree
		c.Nontrivial()
		return
	}
	var events []core.InotifyEvent
	if ierr == nil {
		events = ino.Drain()
		if len(events) > 0 {
			c.Cover("inotify-events-seen")
		}
	}
	relSrc, relDst := filepath.Join("up", "src"), "dst"
	inside := func(rel string) bool {
		return rel == relSrc || strings.HasPrefix(rel, relSrc+"/") || rel == relDst || strings.HasPrefix(rel, relDst+"/")
	}
	// (always) nothing outside src and dst changed
	outsideHashes := map[string]string{}
	for rel, h := range before {
		if !inside(rel) {
			if h != "dir" && !(cs.Link && rel == filepath.Join("other", ctlName)) {
				outsideHashes[h] = rel
			}
			if after[rel] != h {
				c.Failf("%s(%s) changed %q outside the control file's directory and the destination: %.12s -> %.12q (listed names %q, fault %s)", cs.Op, cs.Handle, rel, h, after[rel], cs.Names, cs.Fault)
			}
		}
	}
	for rel := range after {
		if !inside(rel) {
			if _, ok := before[rel]; !ok {
				c.Failf("%s(%s) created %q outside the control file's directory and the destination (listed names %q)", cs.Op, cs.Handle, rel, cs.Names)
			}
		}
	}
	// (always) nothing in dst carries an outside file's content
	for rel, h := range after {
		if strings.HasPrefix(rel, relDst+"/") {
			if from, ok := outsideHashes[h]; ok && before[rel] != h {
				c.Failf("%s(%s) put the content of %q (outside the upload directory) into the destination as %q (listed names %q)", cs.Op, cs.Handle, from, rel, cs.Names)
			}
		}
	}
	ctlRelDst, ctlRelSrc := filepath.Join(relDst, ctlName), filepath.Join(relSrc, ctlName)
	hostile := false
	for _, n := range cs.Names {
		if !plain(n) {
			hostile = true
		}
		if n == ctlName || filepath.Clean(n) == ctlName {
			// the control file lists itself: refusing is as good as treating it as the control file (last);
			// what must not happen is that it travels as an ordinary member, ahead of the files after it
			hostile = true
			c.Cover("hostile:control-file-lists-itself")
		}
	}
	expectFail := cs.Fault != "none"
	// event order
	if len(events) > 0 {
		p.checkOrder(c, cs, events, wdDst, wdSrc, ctlName, opErr == nil)
	}
	switch {
	case opErr != nil:
		// (a control file that is a symbolic link may be refused - the statement does not say that links are
		// followed; what it says about a failed operation is checked below all the same)
		if !expectFail && !hostile && !cs.Link {
			c.Failf("%s(%s) failed without an injected fault: %v (names %q)", cs.Op, cs.Handle, opErr, cs.Names)
		}
		if cs.Link {
			c.Cover("handle:control-file-is-a-symlink:refused")
		}
		if cs.Op != "Remove" {
			if h, ok := after[ctlRelDst]; ok && h != "dir" && !(cs.Pre && h == before[ctlRelDst]) {
				c.Failf("%s(%s) returned an error (%v) but the control file is in the destination (%d bytes there; fault %s, names %q)", cs.Op, cs.Handle, opErr, fileSize(filepath.Join(base, ctlRelDst)), cs.Fault, cs.Names)
			}
		}
		if cs.Op != "Remove" && cs.Pre && after[ctlRelDst] != before[ctlRelDst] {
			// tolerated: the pre-existing control file of the earlier upload may have been replaced or removed
		}
		if cs.Op == "Move" && after[ctlRelSrc] != before[ctlRelSrc] {
			c.Failf("Move(%s) failed (%v) but the control file is no longer intact at its source", cs.Handle, opErr)
		}
	default:
		if expectFail {
			c.Failf("%s(%s) returned no error although a step was made to fail (%s; names %q)", cs.Op, cs.Handle, cs.Fault, cs.Names)
		}
		if cs.Op != "Remove" {
			abs := filename()
			if !filepath.IsAbs(abs) {
				abs = filepath.Join(base, abs) // relative names are relative to the directory the operation ran in
			}
			if got, want := filepath.Clean(abs), filepath.Join(dst, ctlName); got != want {
				c.Failf("after %s the handle's Filename is %q, want %q", cs.Op, got, want)
			}
			if after[ctlRelDst] != before[ctlRelSrc] {
				c.Failf("after %s the control file in the destination differs from the original", cs.Op)
			}
			if !hostile {
				for _, n := range cs.Names {
					if after[filepath.Join(relDst, n)] != before[filepath.Join(relSrc, n)] {
						c.Failf("after %s the file %q in the destination is not byte-identical to the original", cs.Op, n)
					}
				}
			}
		}
		if !hostile {
			for _, n := range append([]string{ctlName}, cs.Names...) {
				_, still := after[filepath.Join(relSrc, n)]
				switch cs.Op {
				case "Copy":
					if !still || after[filepath.Join(relSrc, n)] != before[filepath.Join(relSrc, n)] {
						c.Failf("Copy changed or removed the source file %q", n)
					}
				default:
					if still {
						c.Failf("after %s the file %q is still in the source directory", cs.Op, n)
					}
				}
			}
			if after[filepath.Join(relSrc, "unlisted.txt")] != before[filepath.Join(relSrc, "unlisted.txt")] {
				c.Failf("%s touched a file the control file does not list", cs.Op)
			}
		}
	}
	// coverage
	switch {
	case cs.Fault == "none" && !hostile && opErr == nil:
		c.Cover("ok:" + cs.Op + ":" + cs.Handle)
	case cs.Fault != "none":
		f := fkind
		if fkind == "dest-occupied" && fidx >= len(cs.Names) {
			f = "dest-occupied-control"
		}
		if fkind == "missing-source" && fidx >= len(cs.Names) {
			f = "missing-control-file"
		}
		c.Cover("fault:" + cs.Op + ":" + f)
	}
	for _, n := range cs.Names {
		if !plain(n) {
			c.Cover("hostile:" + n)
		}
	}
	if len(cs.SumNames) > 0 {
		c.Cover("hostile:only-in-checksum-fields")
	}
	switch k := len(cs.Names); {
	case k == 0:
		c.Cover("k:0")
	case k == 1:
		c.Cover("k:1")
	default:
		c.Cover("k:2+")
	}
	if len(cs.Names) > 0 || cs.Fault != "none" {
		c.Nontrivial()
	}
}

func fileSize(p string) int64 {
	if st, err := os.Stat(p); err == nil {
		return st.Size()
	}
	return -1
}

func (p c20) checkOrder(c *core.C, cs c20Case, events []core.InotifyEvent, wdDst, wdSrc int, ctlName string, ok bool) {
	names := map[string]bool{}
	for _, n := range cs.Names {
		if filepath.Base(n) != ctlName { // a control file that lists itself is still only the control file
			names[filepath.Base(n)] = true
		}
	}
	desc := func() string {
		var s []string
		for _, e := range events {
			dir := "src"
			if e.Wd == wdDst {
				dir = "dst"
			}
			s = append(s, fmt.Sprintf("%s:%s:%s", dir, maskName(e.Mask), e.Name))
		}
		return strings.Join(s, " ")
	}
	switch cs.Op {
	case "Copy":
		firstCtl := -1
		lastRef := -1
		closed := map[string]bool{}
		for i, e := range events {
			if e.Wd != wdDst {
				continue
			}
			if e.Name == ctlName && firstCtl < 0 {
				firstCtl = i
				for n := range names {
					if !closed[n] && ok {
						c.Failf("Copy: the control file appeared in the destination before %q was completely written; events: %s", n, desc())
						return
					}
				}
			}
			// a referenced file is complete when it is closed after writing - or when it arrives by
			// rename (an implementation may copy to a temporary name first)
			if names[e.Name] && e.Mask&(syscall.IN_CLOSE_WRITE|syscall.IN_MOVED_TO) != 0 {
				closed[e.Name] = true
				lastRef = i
			}
		}
		if firstCtl >= 0 && lastRef > firstCtl {
			c.Failf("Copy: a referenced file was still being written after the control file appeared; events: %s", desc())
		}
		if ok && firstCtl >= 0 && len(names) > 0 {
			c.Cover("order:copy-control-after-all-closed")
		}
	case "Move":
		ctlAt, lastRef := -1, -1
		for i, e := range events {
			if e.Wd != wdDst || e.Mask&(syscall.IN_MOVED_TO|syscall.IN_CREATE) == 0 {
				continue
			}
			if e.Name == ctlName && ctlAt < 0 {
				ctlAt = i
			} else if names[e.Name] {
				lastRef = i
			}
		}
		if ctlAt >= 0 && lastRef > ctlAt {
			c.Failf("Move: the control file arrived in the destination before a referenced file; events: %s", desc())
		}
		if ok && ctlAt >= 0 && len(names) > 0 {
			c.Cover("order:move-control-last")
		}
	case "Remove":
		ctlAt, lastRef := -1, -1
		for i, e := range events {
			if e.Wd != wdSrc || e.Mask&syscall.IN_DELETE == 0 {
				continue
			}
			if e.Name == ctlName {
				ctlAt = i
			} else if names[e.Name] {
				lastRef = i
			}
		}
		if ctlAt >= 0 && lastRef > ctlAt {
			c.Failf("Remove: the control file was deleted before a referenced file; events: %s", desc())
		}
		if ok && ctlAt >= 0 && len(names) > 0 {
			c.Cover("order:remove-control-last")
		}
	}
}

func maskName(m uint32) string {
	var s []string
	for _, x := range []struct {
		b uint32
		n string
	}{{syscall.IN_CREATE, "CREATE"}, {syscall.IN_MODIFY, "MODIFY"}, {syscall.IN_CLOSE_WRITE, "CLOSE_WRITE"}, {syscall.IN_MOVED_TO, "MOVED_TO"}, {syscall.IN_MOVED_FROM, "MOVED_FROM"}, {syscall.IN_DELETE, "DELETE"}} {
		if m&x.b != 0 {
			s = append(s, x.n)
		}
	}
	return strings.Join(s, "|")
}

var c20Hostile = []string{"../secret.txt", "sub/../../secret.txt", "../../other/o.txt", "/abs/x", "sub/inner.txt", "../", "..//", "./", "/", "sub/", "../../other/", "sub/..", "..", "."}

func plainNames(r *core.Rand, k int) []string {
	pool := []string{"pkg_1.0.orig.tar.gz", "pkg_1.0-1.debian.tar.xz", "pkg_1.0-1_amd64.deb", "pkg_1.0-1.dsc.asc", "pkg-doc_1.0-1_all.deb", "pkg_1.0-1_amd64.buildinfo"}
	perm := r.Perm(len(pool))
	var out []string
	for _, i := range perm[:k] {
		out = append(out, pool[i])
	}
	sort.Strings(out)
	return out
}

func (p c20) RunBatch(t *core.T, b core.Batch) {
	if b.Name == "strace" {
		p.straceBatch(t, b)
		return
	}
	r := t.Rand(b.Name, fmt.Sprint(b.Arg))
	ops := []string{"Copy", "Move", "Remove"}
	hs := []string{"dsc", "changes"}
	emit := func(cs c20Case) {
		in, _ := json.Marshal(cs)
		t.Case("upload", in, func(c *core.C) { p.run(c, t, cs) })
	}
	for i := 0; i < b.N; i++ {
		op, h := ops[(i+b.Arg)%3], hs[(i/3)%2]
		switch b.Name {
		case "ok":
			k := i % 6
			emit(c20Case{Op: op, Handle: h, Names: plainNames(r, k), Fault: "none", Seed: r.U64(), Pre: i%4 == 3 && op != "Remove"})
			if i%4 == 1 && k > 0 {
				emit(c20Case{Op: op, Handle: h, Names: plainNames(r, k), Fault: "none", Seed: r.U64(), Link: true})
			}
		case "fault":
			k := 1 + i%5
			names := plainNames(r, k)
			var faults []string
			if op == "Remove" {
				faults = []string{fmt.Sprintf("missing-source:%d", r.Intn(k))}
			} else {
				faults = []string{fmt.Sprintf("missing-source:%d", r.Intn(k)), fmt.Sprintf("missing-source:%d", k), fmt.Sprintf("dest-occupied:%d", r.Intn(k)), fmt.Sprintf("dest-occupied:%d", k), "dest-missing", "dest-is-file"}
				if op == "Copy" {
					faults = append(faults, "control-copy-cut-short")
				}
			}
			f := faults[(i/6)%len(faults)]
			emit(c20Case{Op: op, Handle: h, Names: names, Fault: f, Seed: r.U64(), Pre: op != "Remove" && i%2 == 1})
			if op == "Copy" && i%3 == 0 {
				// the combination that matters most for a re-upload: an earlier control file of the same name is in
				// the destination AND the copy of the new one breaks off part-way
				emit(c20Case{Op: op, Handle: h, Names: names, Fault: "control-copy-cut-short", Seed: r.U64(), Pre: true})
			}
		case "hostile":
			k := r.Range(0, 3)
			names := plainNames(r, k)
			hn := c20Hostile[i%len(c20Hostile)]
			pos := r.Intn(len(names) + 1)
			names = append(names[:pos], append([]string{hn}, names[pos:]...)...)
			emit(c20Case{Op: op, Handle: h, Names: names, Fault: "none", Seed: r.U64()})
			if i%2 == 0 {
				emit(c20Case{Op: op, Handle: h, Names: names, Fault: "none", Seed: r.U64(), Prime: true})
			}
			// a hostile name that appears only in the checksum fields, never in Files
			emit(c20Case{Op: op, Handle: h, Names: plainNames(r, r.Range(1, 3)), SumNames: []string{hn}, Fault: "none", Seed: r.U64()})
			if i%3 == 0 {
				// the control file lists itself, in front of 1..3 ordinary files; alone, and with a later file missing
				self := "pkg_1.0-1." + h
				sn := append([]string{self}, plainNames(r, r.Range(1, 3))...)
				emit(c20Case{Op: op, Handle: h, Names: sn, Fault: "none", Seed: r.U64()})
				emit(c20Case{Op: op, Handle: h, Names: sn, Fault: fmt.Sprintf("missing-source:%d", len(sn)-1), Seed: r.U64()})
				// ... and under another spelling of its own name
				sn2 := append([]string{}, sn...)
				sn2[0] = r.Pick([]string{"./", ".//", "sub/../"}) + self
				emit(c20Case{Op: op, Handle: h, Names: sn2, Fault: "none", Seed: r.U64()})
				emit(c20Case{Op: op, Handle: h, Names: sn2, Fault: fmt.Sprintf("missing-source:%d", len(sn2)-1), Seed: r.U64()})
				// ... and as the last or a middle entry
				plainN := plainNames(r, r.Range(1, 3))
				sn3 := append(append([]string{}, plainN...), self)
				emit(c20Case{Op: op, Handle: h, Names: sn3, Fault: "none", Seed: r.U64()})
				if len(plainN) >= 2 {
					sn4 := append(append(append([]string{}, plainN[:1]...), self), plainN[1:]...)
					emit(c20Case{Op: op, Handle: h, Names: sn4, Fault: "none", Seed: r.U64()})
				}
			}
		case "sequence":
			first := []string{"Copy", "Move"}[i%2]
			then := []string{"Remove", "Move"}[(i/2)%2]
			emit(c20Case{Op: first, Handle: h, Names: plainNames(r, 1+i%4), Fault: "none", Then: then, Seed: r.U64()})
		}
	}
}

func (p c20) RunCase(t *core.T, kind string, input []byte) {
	if kind == "strace" {
		var ts c20Trace
		if json.Unmarshal(input, &ts) == nil {
			t.Case(kind, input, func(c *core.C) { p.strace(c, t, ts) })
		}
		return
	}
	var cs c20Case
	if json.Unmarshal(input, &cs) == nil {
		t.Case(kind, input, func(c *core.C) { p.run(c, t, cs) })
	}
}
