package props

import (
	"bufio"
	"bytes"
	"encoding/json"
	"fmt"
	"reflect"
	"sort"
	"strings"
	"sync"
	"time"

	"golang.org/x/crypto/openpgp"
	"pault.ag/go/debian/changelog"
	"pault.ag/go/debian/control"
	"pault.ag/go/debian/deb"
	"pault.ag/go/debian/dependency"
	"pault.ag/go/debian/version"

	"verif/internal/core"
	"verif/internal/gen"
	"verif/internal/model"
)

// C18 — parsers are total, deterministic and safe to call concurrently.
type c18 struct{}

func init() { core.Register(c18{}) }

func (c18) ID() string    { return "C18" }
func (c18) Level() string { return "exploration" }
func (c18) Rule() string {
	return "every parser entry point (version.Parse; dependency.Parse/ParseArch/ParseArchitectures; ParagraphReader.All with nil and non-nil keyring; Unmarshal into DSC, Changes, SourceParagraph, BinaryParagraph, BinaryIndex, SourceIndex and slices of them; ParseDsc/ParseChanges/ParseControl/ParseBinaryIndex/ParseSourceIndex; changelog.Parse/ParseOne) is driven with the output of every generator of this harness and with mutants of it (byte flips, splices, truncations, line duplication, repetition up to 64 KiB, deeply nested brackets, raw bytes). Monitors: panic (recover) and process death (journal); value-xor-error for pointer and slice results; two sequential calls must give identical results (value and error text); the same inputs parsed from 16 goroutines at once (each also parsing its neighbours' inputs) must reproduce the sequential baseline; workers are built with -race and every report block is collected; a call that does not return is cut by the watchdog and re-run alone under a 60 s CPU limit. Non-trivial = input that at least one entry point accepts and at least one rejects, or any concurrent round; distinct by hash of the input."
}
func (c18) Assumptions() []string {
	return []string{"hang = no return within 60 CPU-seconds on one input of at most 64 KiB", "by-value struct results (version.Parse, Unmarshal targets) are not required to be zero on error"}
}
func (c18) WantRace(tier string) bool { return true }

func (c18) Batches(tier string, seed uint64) []core.Batch {
	var b []core.Batch
	// the concurrent batches come first: workers claim batches in order, so each conc batch is the first
	// thing a fresh worker process does (no earlier batch has warmed or filled any process-wide state)
	b = append(b, spread("conc", 4, tierN(tier, 4, 60))...)
	b = append(b, spread("big", 6, tierN(tier, 2, 8))...) // the slowest cases: claimed early
	b = append(b, spread("seq", 12, tierN(tier, 450, 8000))...)
	b = append(b, spread("reuse", 2, tierN(tier, 400, 4000))...)
	return b
}

func (c18) Mandatory(tier string) []string {
	m := []string{"reuse:version", "reuse:arch", "reuse:dependency", "reuse:result-aliasing", "conc:rounds", "conc:overlap>=2", "big:64KiB", "source:version", "source:dependency", "source:deb822", "source:typed", "source:changelog", "source:raw", "source:armored"}
	// (which inputs an entry point accepts is not this property's business: the :ok / :error counts are evidence,
	// what is required is that every entry point was driven)
	for _, e := range c18Entries {
		m = append(m, "entry:"+e.name+":called")
	}
	return m
}

type c18Entry struct {
	name string
	// run returns a canonical representation of (value, error) and, if the
	// value-xor-error rule is broken, a description.
	run func(in []byte) (repr string, isErr bool, xor string)
}

func jsonRepr(v interface{}, err error) string {
	b, jerr := json.Marshal(v)
	if jerr != nil {
		b = []byte(fmt.Sprintf("%+v", v))
	}
	if err != nil {
		return string(b) + " | error: " + err.Error()
	}
	return string(b)
}

func unmarshalEntry(name string, mk func() interface{}) c18Entry {
	return c18Entry{name, func(in []byte) (string, bool, string) {
		v := mk()
		err := control.Unmarshal(v, bytes.NewReader(in))
		return jsonRepr(v, err), err != nil, ""
	}}
}

type c18Required struct {
	control.Paragraph
	Package string `required:"true"`
	Version string `required:"true"`
	Section string `required:"true"`
	Origin  string `required:"true"`
}

var emptyKeyring = openpgp.EntityList{}

var c18Entries = []c18Entry{
	{"version.Parse", func(in []byte) (string, bool, string) {
		v, err := version.Parse(string(in))
		return jsonRepr(v, err), err != nil, ""
	}},
	{"dependency.Parse", func(in []byte) (string, bool, string) {
		d, err := dependency.Parse(string(in))
		x := ""
		if err != nil && carriesData(d) {
			x = "a non-zero *Dependency together with an error"
		}
		if err == nil && d == nil {
			x = "nil result without an error"
		}
		return jsonRepr(d, err), err != nil, x
	}},
	{"dependency.ParseArch", func(in []byte) (string, bool, string) {
		a, err := dependency.ParseArch(string(in))
		x := ""
		if err != nil && carriesData(a) {
			x = "a non-zero *Arch together with an error"
		}
		if err == nil && a == nil {
			x = "nil result without an error"
		}
		return jsonRepr(a, err), err != nil, x
	}},
	{"dependency.ParseArchitectures", func(in []byte) (string, bool, string) {
		a, err := dependency.ParseArchitectures(string(in))
		x := ""
		if err != nil && len(a) != 0 {
			x = "architectures together with an error"
		}
		return jsonRepr(a, err), err != nil, x
	}},
	{"ParagraphReader.All(nil)", func(in []byte) (string, bool, string) {
		pr, err := control.NewParagraphReader(bytes.NewReader(in), nil)
		if err != nil {
			x := ""
			if pr != nil {
				// not a value unless it can be used: a reader that only repeats the failure is as good as nil
				if para, nerr := pr.Next(); nerr == nil || para != nil {
					x = "a usable reader together with an error"
				}
			}
			return jsonRepr(nil, err), true, x
		}
		ps, err := pr.All()
		x := ""
		if err != nil && len(ps) != 0 {
			x = "paragraphs together with an error"
		}
		return jsonRepr(ps, err), err != nil, x
	}},
	{"ParagraphReader.All(keyring)", func(in []byte) (string, bool, string) {
		pr, err := control.NewParagraphReader(bytes.NewReader(in), &emptyKeyring)
		if err != nil {
			x := ""
			if pr != nil {
				// not a value unless it can be used: a reader that only repeats the failure is as good as nil
				if para, nerr := pr.Next(); nerr == nil || para != nil {
					x = "a usable reader together with an error"
				}
			}
			return jsonRepr(nil, err), true, x
		}
		ps, err := pr.All()
		x := ""
		if err != nil && len(ps) != 0 {
			x = "paragraphs together with an error"
		}
		if pr.Signer() != nil {
			x = "a signer is reported with an empty keyring"
		}
		return jsonRepr(ps, err), err != nil, x
	}},
	unmarshalEntry("Unmarshal(DSC)", func() interface{} { return &control.DSC{} }),
	unmarshalEntry("Unmarshal(Changes)", func() interface{} { return &control.Changes{} }),
	unmarshalEntry("Unmarshal(SourceParagraph)", func() interface{} { return &control.SourceParagraph{} }),
	unmarshalEntry("Unmarshal(BinaryParagraph)", func() interface{} { return &control.BinaryParagraph{} }),
	unmarshalEntry("Unmarshal([]BinaryIndex)", func() interface{} { return &[]control.BinaryIndex{} }),
	unmarshalEntry("Unmarshal([]SourceIndex)", func() interface{} { return &[]control.SourceIndex{} }),
	unmarshalEntry("Unmarshal([]DSC)", func() interface{} { return &[]control.DSC{} }),
	// types with several required fields (the control file of a .deb has three)
	unmarshalEntry("Unmarshal(deb.Control)", func() interface{} { return &deb.Control{} }),
	unmarshalEntry("Unmarshal(probe with 4 required fields)", func() interface{} { return &c18Required{} }),
	{"ParseDsc", func(in []byte) (string, bool, string) {
		d, err := control.ParseDsc(bufio.NewReader(bytes.NewReader(in)), "x.dsc")
		x := ""
		if err != nil && carriesData(d) {
			x = "a non-zero *DSC together with an error"
		}
		if err == nil && d == nil {
			x = "nil result without an error"
		}
		return jsonRepr(d, err), err != nil, x
	}},
	{"ParseChanges", func(in []byte) (string, bool, string) {
		d, err := control.ParseChanges(bufio.NewReader(bytes.NewReader(in)), "x.changes")
		x := ""
		if err != nil && carriesData(d) {
			x = "a non-zero *Changes together with an error"
		}
		if err == nil && d == nil {
			x = "nil result without an error"
		}
		return jsonRepr(d, err), err != nil, x
	}},
	{"ParseControl", func(in []byte) (string, bool, string) {
		d, err := control.ParseControl(bufio.NewReader(bytes.NewReader(in)), "debian/control")
		x := ""
		if err != nil && carriesData(d) {
			x = "a non-zero *Control together with an error"
		}
		if err == nil && d == nil {
			x = "nil result without an error"
		}
		return jsonRepr(d, err), err != nil, x
	}},
	{"ParseBinaryIndex", func(in []byte) (string, bool, string) {
		d, err := control.ParseBinaryIndex(bufio.NewReader(bytes.NewReader(in)))
		x := ""
		if err != nil && len(d) != 0 {
			x = fmt.Sprintf("%d entries together with an error", len(d))
		}
		return jsonRepr(d, err), err != nil, x
	}},
	{"ParseSourceIndex", func(in []byte) (string, bool, string) {
		d, err := control.ParseSourceIndex(bufio.NewReader(bytes.NewReader(in)))
		x := ""
		if err != nil && len(d) != 0 {
			x = fmt.Sprintf("%d entries together with an error", len(d))
		}
		return jsonRepr(d, err), err != nil, x
	}},
	{"accessors", func(in []byte) (string, bool, string) {
		// the derived accessors of the typed documents must be total too
		var out []interface{}
		anyErr := true
		if bi, err := control.ParseBinaryIndex(bufio.NewReader(bytes.NewReader(in))); err == nil {
			anyErr = false
			for i := range bi {
				e := &bi[i]
				out = append(out, e.SourcePackage(), e.GetDepends(), e.GetPreDepends(), e.GetSuggests(), e.GetConflicts(), e.GetBreaks(), e.GetReplaces(), e.GetBuiltUsing())
			}
		}
		if si, err := control.ParseSourceIndex(bufio.NewReader(bytes.NewReader(in))); err == nil {
			anyErr = false
			for i := range si {
				e := &si[i]
				out = append(out, e.GetBuildDepends(), e.GetBuildDependsArch(), e.GetBuildDependsIndep())
			}
		}
		if d, err := control.ParseDsc(bufio.NewReader(bytes.NewReader(in)), "/d/x.dsc"); err == nil {
			anyErr = false
			ds, derr := d.DebianSource()
			out = append(out, d.Maintainers(), d.HasArchAll(), d.AbsFiles(), ds, fmt.Sprint(derr))
		}
		if ch, err := control.ParseChanges(bufio.NewReader(bytes.NewReader(in)), "/d/x.changes"); err == nil {
			anyErr = false
			out = append(out, ch.AbsFiles())
		}
		if ct, err := control.ParseControl(bufio.NewReader(bytes.NewReader(in)), "debian/control"); err == nil {
			anyErr = false
			out = append(out, ct.Source.Maintainers())
		}
		return jsonRepr(out, nil), anyErr, ""
	}},
	{"changelog.Parse", func(in []byte) (string, bool, string) {
		d, err := changelog.Parse(bytes.NewReader(in))
		x := ""
		if err != nil && len(d) != 0 {
			x = fmt.Sprintf("%d entries together with an error", len(d))
		}
		return jsonRepr(d, err), err != nil, x
	}},
	{"changelog.ParseOne", func(in []byte) (string, bool, string) {
		d, err := changelog.ParseOne(bufio.NewReader(bytes.NewReader(in)))
		x := ""
		if err != nil && carriesData(d) {
			x = "a non-zero entry together with an error"
		}
		if err == nil && d == nil {
			x = "nil result without an error"
		}
		return jsonRepr(d, err), err != nil, x
	}},
}

// seedInput draws one well-formed text from one of the generators.
// c18Armor wraps a document the way a clearsigned .dsc/.changes/Release looks (the signature is
// syntactically armored junk: the parsers under test are called without a keyring), or produces a
// near-miss of that framing.
func c18Armor(r *core.Rand, doc string) string {
	sig := "-----BEGIN PGP SIGNATURE-----\n\niQEzBAEBCAAdFiEE" + r.Str("ABCDEFGHIJKLMNOPQRSTUVWXYZabcdefghijklmnopqrstuvwxyz0123456789+/", 48) + "\n=" + r.Str("ABCDabcd0123", 4) + "\n-----END PGP SIGNATURE-----\n"
	head := "-----BEGIN PGP SIGNED MESSAGE-----\nHash: " + r.Pick([]string{"SHA256", "SHA512", "SHA1"}) + "\n\n"
	switch r.Intn(10) {
	case 0: // cut before the signature
		return head + doc
	case 1: // header only
		return head
	case 2: // a bare signature / key armor instead of a signed message
		return sig
	case 3:
		return "-----BEGIN PGP PUBLIC KEY BLOCK-----\n\n" + r.Str("ABCDEFabcdef0123456789+/", 64) + "\n-----END PGP PUBLIC KEY BLOCK-----\n" + doc
	case 4: // no blank line after the armor headers
		return "-----BEGIN PGP SIGNED MESSAGE-----\nHash: SHA256\n" + doc + sig
	case 5: // the first line is only a prefix of the armor header
		return "-----BEGIN PGP " + doc + sig
	case 6: // text after the signature
		return head + doc + sig + doc
	default:
		full := head + doc + sig
		if r.Chance(1, 3) {
			return full[:r.Intn(len(full)+1)]
		}
		return full
	}
}

func c18Seed(r *core.Rand) (string, string) {
	if r.Chance(1, 10) {
		_, s := c18SeedPlain(r)
		return "armored", c18Armor(r, s)
	}
	return c18SeedPlain(r)
}

func c18SeedPlain(r *core.Rand) (string, string) {
	switch r.Intn(9) {
	case 0:
		return "version", gen.Version(r).Text
	case 1:
		return "dependency", gen.Dep(r, 5, 3, true).Render(gen.RandomSpacer(r, nil), r.Chance(1, 6))
	case 2:
		return "dependency", r.Pick(gen.ArchNames) + " " + r.Pick(gen.ArchNames)
	case 3:
		return "deb822", gen.Deb822Doc(r).Render()
	case 4:
		d := newDoc()
		(c10{}).genDSC(r, d)
		return "typed", d.sb.String()
	case 5:
		d, _ := genDebControl(r, nil)
		return "typed", d.sb.String() + "\n" + d.sb.String()
	case 6:
		text, _, _ := genChangelog(r, 3).render()
		return "changelog", text
	case 7:
		if r.Chance(1, 3) {
			// several independent faults in ONE paragraph (field names that start with '#' behind a CR, VT or FF, two
			// different names given twice): whichever the parser reports, it reports the same one every time
			return "deb822", r.Pick([]string{"\r#first: 1\n\r#second: 2\n\f#third: 3\n\v#fourth: 4\n", "Package: a\n\r#x: 1\n\r#y: 2\n\r#z: 3\n\r#w: 4\n\r#v: 5\n",
				"A: 1\nB: 1\nC: 1\nD: 1\nA: 2\nB: 2\nC: 2\nD: 2\n", "\v#a: 1\nK: 1\nK: 2\n\f#b: 2\n\r#c: 3\nL: 1\nL: 2\n"})
		}
		if r.Bool() { // an index stanza whose dependency fields are present but malformed
			return "typed", "Package: a\nVersion: 1\nDepends: libc6 (>= 2.30\nPre-Depends: x [amd64\nBreaks: y (<> 1)\nBuild-Depends: ${z\nBinary: a\nMaintainer: m\nArchitecture: any\n"
		}
		return "typed", "Package: a\nBinary: a, b\nVersion: 1.0-1\nMaintainer: x\nArchitecture: any all\nFiles:\n d41d8cd98f00b204e9800998ecf8427e 0 a_1.dsc\nChecksums-Sha256:\n e3b0c44298fc1c149afbf4c8996fb92427ae41e4649b934ca495991b7852b855 0 a_1.dsc\nInstalled-Size: 12\nSize: 7\nSection: misc\nOrigin: debian\n"
	default:
		return "raw", string(r.Bytes(r.Range(0, 60)))
	}
}

func c18Mutate(r *core.Rand, s string) string {
	b := []byte(s)
	if len(b) == 0 {
		return "\x00"
	}
	alpha := " \t\n,|()[]<>!${}:=~-+.aZ09#\xe9\x00\xff\r"
	for k := r.Range(1, 3); k > 0; k-- {
		switch r.Intn(8) {
		case 0:
			b[r.Intn(len(b))] = r.PickByte(alpha)
		case 1:
			i := r.Intn(len(b) + 1)
			b = append(b[:i], append([]byte{r.PickByte(alpha)}, b[i:]...)...)
		case 2:
			if len(b) > 1 {
				i := r.Intn(len(b))
				b = append(b[:i], b[i+1:]...)
			}
		case 3: // truncate
			b = b[:r.Intn(len(b)+1)]
		case 4: // splice two halves in reverse
			i := r.Intn(len(b) + 1)
			b = append(append([]byte{}, b[i:]...), b[:i]...)
		case 5: // duplicate a line
			lines := strings.SplitAfter(string(b), "\n")
			i := r.Intn(len(lines))
			lines = append(lines[:i+1], append([]string{lines[i]}, lines[i+1:]...)...)
			b = []byte(strings.Join(lines, ""))
		case 6: // nested brackets
			open := r.Pick([]string{"(", "[", "<", "${", "(>= "})
			i := r.Intn(len(b) + 1)
			b = append(b[:i], append([]byte(strings.Repeat(open, r.Range(2, 40))), b[i:]...)...)
		case 7: // numeric edge
			i := r.Intn(len(b) + 1)
			b = append(b[:i], append([]byte(r.Pick([]string{"99999999999999999999", "-1", "0x10", "1e9", " 18446744073709551616 ", "-0:", "-00:1", "+0:", "-0:1.0-1", "0:-1"})), b[i:]...)...)
		}
		if len(b) == 0 {
			b = []byte{'\n'}
		}
	}
	return string(b)
}

func (p c18) one(c *core.C, in []byte) {
	oks, errs := 0, 0
	for _, e := range c18Entries {
		r1, isErr, xor := e.run(in)
		if xor != "" {
			c.Failf("%s returned %s\nresult: %s", e.name, xor, clip(r1, 300))
		}
		r2, _, _ := e.run(in)
		if r1 != r2 {
			c.Failf("%s gave different results on two calls with the same input:\n first:  %s\n second: %s", e.name, clip(r1, 300), clip(r2, 300))
		}
		c.Cover("entry:" + e.name + ":called")
		if isErr {
			errs++
			c.Cover("entry:" + e.name + ":error")
		} else {
			oks++
			c.Cover("entry:" + e.name + ":ok")
		}
	}
	if oks > 0 && errs > 0 {
		c.Nontrivial()
	}
}

func clip(s string, n int) string {
	if len(s) > n {
		return s[:n] + "…"
	}
	return s
}

// conc: sequential baseline, then 16 goroutines.
// carriesData: a result returned next to an error counts as "a usable value" when it is a non-nil
// pointer to something other than the zero value (or any other non-zero value).
func carriesData(v interface{}) bool {
	rv := reflect.ValueOf(v)
	if !rv.IsValid() {
		return false
	}
	if rv.Kind() == reflect.Ptr {
		return !rv.IsNil() && !rv.Elem().IsZero()
	}
	return !rv.IsZero()
}

func (p c18) conc(c *core.C, inputs []string) {
	// The concurrent rounds run FIRST, on inputs this process has never parsed (a sequential warm-up
	// would hide races on lazily filled state); the sequential baseline is computed afterwards.
	//
	// Inputs are handled in groups of 4; for each group G goroutines are released together and every
	// one of them parses every input of the group through every entry point, WITHOUT any
	// synchronisation of the harness's own between the release and the end of the round: the race
	// detector decides by happens-before, so a monitor that touched shared atomics around each call
	// would order the calls and hide exactly the races it is looking for. Results and call intervals are
	// kept in goroutine-local storage and compared after the round.
	const G = 16
	passes := 1 // first pass: all goroutines on the same input; a second, staggered pass in the thorough tier
	if c.Tier() == "thorough" {
		passes = 2
	}
	type span struct{ t0, t1 int64 }
	results := make([]map[[2]int]string, G)
	spans := make([][]span, G)
	diffs := make([][]string, G)
	for g := range results {
		results[g] = map[[2]int]string{}
	}
	t00 := time.Now()
	rounds := 0
	for lo := 0; lo < len(inputs); lo += 4 {
		hi := min(lo+4, len(inputs))
		var wg sync.WaitGroup
		start := make(chan struct{})
		for g := 0; g < G; g++ {
			g := g
			wg.Add(1)
			go func() {
				defer wg.Done()
				defer func() {
					if r := recover(); r != nil {
						diffs[g] = append(diffs[g], fmt.Sprintf("panic in goroutine %d: %v", g, r))
					}
				}()
				<-start
				for rep := 0; rep < passes; rep++ {
					for d := 0; d < hi-lo; d++ {
						i := lo + (d+g*rep)%(hi-lo) // first pass: all goroutines on the same input; second pass: staggered
						for k, e := range c18Entries {
							t0 := int64(time.Since(t00))
							got, _, _ := e.run([]byte(inputs[i]))
							spans[g] = append(spans[g], span{t0, int64(time.Since(t00))})
							if prev, seen := results[g][[2]int{i, k}]; seen && prev != got {
								diffs[g] = append(diffs[g], fmt.Sprintf("%s on input %d: two calls in one goroutine of a concurrent round differ", e.name, i))
							}
							results[g][[2]int{i, k}] = got
						}
					}
				}
			}()
		}
		close(start)
		wg.Wait()
		rounds++
	}
	base := make([][]string, len(inputs))
	for i, in := range inputs {
		base[i] = make([]string, len(c18Entries))
		for k, e := range c18Entries {
			base[i][k], _, _ = e.run([]byte(in))
		}
	}
	for g := 0; g < G; g++ {
		for key, got := range results[g] {
			if got != base[key[0]][key[1]] {
				diffs[g] = append(diffs[g], fmt.Sprintf("%s on input %d: concurrent result differs from the sequential one:\n sequential: %s\n concurrent: %s", c18Entries[key[1]].name, key[0], clip(base[key[0]][key[1]], 200), clip(got, 200)))
			}
		}
	}
	for _, d := range diffs {
		for _, m := range d {
			c.Failf("%s", m)
		}
	}
	// evidence only: how many calls were in flight together (from the goroutine-local intervals)
	type ev struct {
		t int64
		d int
	}
	var evs []ev
	for _, sp := range spans {
		for _, x := range sp {
			evs = append(evs, ev{x.t0, 1}, ev{x.t1, -1})
		}
	}
	sort.Slice(evs, func(a, b int) bool {
		if evs[a].t != evs[b].t {
			return evs[a].t < evs[b].t
		}
		return evs[a].d < evs[b].d
	})
	cur, maxInflight := 0, 0
	var hist [G + 1]int64
	for _, e := range evs {
		cur += e.d
		if e.d > 0 && cur <= G {
			hist[cur]++
		}
		if cur > maxInflight {
			maxInflight = cur
		}
	}
	c.Cover("conc:rounds")
	c.CoverN("conc:barrier-rounds", int64(rounds))
	if maxInflight >= 2 {
		c.Cover("conc:overlap>=2")
	}
	for n := 2; n <= G; n++ {
		if hist[n] > 0 {
			c.Cover(fmt.Sprintf("conc:calls-entered-with-%d-in-flight", n))
		}
	}
	c.Nontrivial()
}

func (p c18) RunBatch(t *core.T, b core.Batch) {
	r := t.Rand(b.Name, fmt.Sprint(b.Arg))
	switch b.Name {
	case "seq":
		for i := 0; i < b.N; i++ {
			src, s := c18Seed(r)
			if r.Chance(2, 3) {
				s = c18Mutate(r, s)
			}
			t.Cover("source:" + src)
			t.Case("input", []byte(s), func(c *core.C) { p.one(c, []byte(s)) })
		}
	case "big":
		for i := 0; i < b.N; i++ {
			_, s := c18Seed(r)
			var big string
			switch i % 4 {
			case 0: // one long token
				// (the dependency parser is quadratic in the length of a single token: 64 KiB of one token costs
				// about a second per call, several under the race detector - the quick tier stops at 24 KiB)
				big = strings.Repeat(r.Pick([]string{"a", "1", "~", "(", "[", "<", "x:", "${"}), tierN(t.Tier, 24576, 65536))
			case 1: // repetition of a document
				for len(big) < 60000 {
					big += s + r.Pick([]string{"", "\n", ", ", " | "})
				}
				big = big[:min(len(big), 65536)]
			case 2: // a very long line inside a document
				big = s + "X-Long: " + strings.Repeat("y", 65000) + "\n"
				big = big[:min(len(big), 65536)]
			default:
				big = s + strings.Repeat("\n .", 20000)
				big = big[:min(len(big), 65536)]
			}
			t.Cover("big:64KiB")
			t.Case("input", []byte(big), func(c *core.C) { p.one(c, []byte(big)) })
		}
	case "reuse":
		for i := 0; i < b.N; i++ {
			var a, bb string
			kind := []string{"version", "arch", "dependency"}[i%3]
			switch kind {
			case "version":
				a, bb = gen.Version(r).Text, gen.Version(r).Text
			case "arch":
				a, bb = r.Pick(gen.ArchNames), r.Pick(gen.ArchNames)
			default:
				a = gen.Dep(r, 4, 3, true).Render(model.Canonical, false)
				bb = gen.Dep(r, 3, 2, r.Bool()).Render(model.Canonical, false)
				if r.Chance(1, 5) {
					bb = r.Pick([]string{"", " ", "x"})
				}
			}
			if r.Chance(1, 6) {
				bb = c18Mutate(r, bb)
			}
			in := kind + "\x1e" + a + "\x1e" + bb
			t.Case("reuse", []byte(in), func(c *core.C) { p.reuse(c, kind, a, bb) })
		}
	case "conc":
		for i := 0; i < b.N; i++ {
			var inputs []string
			for k := 0; k < 24; k++ {
				_, s := c18Seed(r)
				if r.Bool() {
					s = c18Mutate(r, s)
				}
				inputs = append(inputs, s)
			}
			// names no call in this process has seen before (cold caches, if there are any)
			for k := 0; k < 24; k++ {
				a1, a2, a3 := r.Str("abcdefghijklmnop", 6), r.Str("qrstuvwxyz", 5), r.Str("0123456789", 4)
				inputs = append(inputs, fmt.Sprintf("pkg%s:%s (>= %s) [%s-%s %s], %s <%s>", a1, a2, a3, a1, a3, a2, a3, a1))
				inputs = append(inputs, fmt.Sprintf("%s %s-%s %s-%s-%s", a2, a1, a2, a3, a2, a1))
			}
			in, _ := json.Marshal(inputs)
			t.Case("conc", in, func(c *core.C) { p.conc(c, inputs) })
		}
	}
}

// reuse: decoding text b into a variable that already holds the result of
// decoding text a must give what decoding b into a fresh variable gives, and
// must not disturb a copy taken of the first result.
func (p c18) reuse(c *core.C, kind, a, b string) {
	c.Cover("reuse:" + kind)
	c.Nontrivial()
	switch kind {
	case "version":
		for _, via := range []string{"UnmarshalControl", "UnmarshalText", "json"} {
			dec := func(v *version.Version, s string) error {
				switch via {
				case "UnmarshalControl":
					return v.UnmarshalControl(s)
				case "UnmarshalText":
					return v.UnmarshalText([]byte(s))
				}
				js, _ := json.Marshal(s)
				return json.Unmarshal(js, v)
			}
			var fresh, reused version.Version
			errF := dec(&fresh, b)
			if dec(&reused, a) != nil {
				continue
			}
			errR := dec(&reused, b)
			if (errF == nil) != (errR == nil) || (errF == nil && fresh != reused) {
				c.Failf("version via %s: decoding %q into a variable that held %q gives %+v (err %v); into a fresh variable %+v (err %v)", via, b, a, jsonRepr(reused, nil), errR, jsonRepr(fresh, nil), errF)
			}
		}
	case "arch":
		var fresh, reused dependency.Arch
		errF := fresh.UnmarshalControl(b)
		reused.UnmarshalControl(a)
		errR := reused.UnmarshalControl(b)
		// (what a variable holds after a FAILED decode is not specified: untouched, zeroed and partially filled are all seen)
		if (errF == nil) != (errR == nil) || (errF == nil && fresh != reused) {
			c.Failf("architecture: decoding %q into a variable that held %q gives %+v (err %v); into a fresh variable %+v (err %v)", b, a, reused, errR, fresh, errF)
		}
	default:
		// results of separate Parse calls must not share mutable state: scribble over
		// everything reachable from the first result, then parse the same text again
		if d1, err := dependency.Parse(a); err == nil {
			pristine := normDep(d1)
			for ri := range d1.Relations {
				for pi := range d1.Relations[ri].Possibilities {
					ps := &d1.Relations[ri].Possibilities[pi]
					if ps.Arch != nil {
						*ps.Arch = dependency.Arch{ABI: "scribbled", OS: "scribbled", CPU: "scribbled"}
					}
					if ps.Version != nil {
						*ps.Version = dependency.VersionRelation{Operator: "!!", Number: "scribbled"}
					}
					if ps.Architectures != nil {
						for k := range ps.Architectures.Architectures {
							ps.Architectures.Architectures[k] = dependency.Arch{ABI: "x", OS: "x", CPU: "x"}
						}
						ps.Architectures.Not = !ps.Architectures.Not
					}
					for k := range ps.StageSets {
						for j := range ps.StageSets[k].Stages {
							ps.StageSets[k].Stages[j] = dependency.Stage{Not: true, Name: "scribbled"}
						}
					}
					ps.Name = "scribbled"
				}
			}
			if d2, err := dependency.Parse(a); err != nil || normDep(d2) != pristine {
				c.Failf("dependency: after the caller modified the result of Parse(%q) in place, parsing the same text again gives a different value (results share state):\n first:  %s\n second: %s", a, clip(pristine, 300), clip(normDep(d2), 300))
			}
			if a1, err := dependency.ParseArch("native"); err == nil {
				a1.CPU = "scribbled"
				if a2, _ := dependency.ParseArch("native"); a2 == nil || a2.CPU != "native" {
					c.Failf("ParseArch results share state across calls")
				}
			}
			c.Cover("reuse:result-aliasing")
		}
		var fresh, reused dependency.Dependency
		errF := fresh.UnmarshalControl(b)
		if reused.UnmarshalControl(a) != nil {
			return
		}
		copyOfFirst := reused // shares slices with the first result
		before := normDep(&copyOfFirst)
		errR := reused.UnmarshalControl(b)
		if (errF == nil) != (errR == nil) || (errF == nil && normDep(&fresh) != normDep(&reused)) {
			c.Failf("dependency: decoding %q into a variable that held %q gives %s (err %v); into a fresh variable %s (err %v)", b, a, clip(normDep(&reused), 300), errR, clip(normDep(&fresh), 300), errF)
		}
		if after := normDep(&copyOfFirst); after != before {
			c.Failf("dependency: decoding %q into a variable changed a copy of the value it held before (%q):\n before: %s\n after:  %s", b, a, clip(before, 300), clip(after, 300))
		}
	}
}

func (p c18) RunCase(t *core.T, kind string, input []byte) {
	switch kind {
	case "reuse":
		parts := strings.SplitN(string(input), "\x1e", 3)
		if len(parts) == 3 {
			t.Case(kind, input, func(c *core.C) { p.reuse(c, parts[0], parts[1], parts[2]) })
		}
		return
	}
	switch kind {
	case "input":
		t.Case(kind, input, func(c *core.C) { p.one(c, input) })
	case "conc":
		var inputs []string
		if json.Unmarshal(input, &inputs) == nil {
			t.Case(kind, input, func(c *core.C) { p.conc(c, inputs) })
		}
	}
}

var _ = model.Sign
