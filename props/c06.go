package props

import (
	"encoding/json"
	"fmt"
	"strconv"
	"strings"

	"pault.ag/go/debian/dependency"
	"pault.ag/go/debian/version"

	"verif/internal/core"
	"verif/internal/gen"
	"verif/internal/model"
)

// C06 — architecture and version restrictions evaluate per Debian semantics.
type c06 struct{}

func init() { core.Register(c06{}) }

func (c06) ID() string    { return "C06" }
func (c06) Level() string { return "exploration" }
func (c06) Rule() string {
	return "Arch.Is: all 28 concrete x 65 pattern architectures of the abstraction {all} + {any,n1,n2,n3}^3 in both operand orders, values built as struct literals, via ParseArch and via UnmarshalControl into a fresh value (wildcard x wildcard pairs: symmetry only); plus real Debian 1-/2-/3-part names judged by the model denotation. ArchSet.Matches: all lists of length 0..2 over the 65 patterns x 28 concretes x negation, random lists up to 6. GetPossibilities/GetAllPossibilities/GetSubstvars: generated ASTs, parsed from text and built as literals (incl. nil Architectures), x 8 architectures against 'first non-substvar alternative whose list admits'. SatisfiedBy: 10 operator spellings x version pool squared + unparsable numbers against the reference comparator. Non-trivial = pair with a wildcard pattern or unequal concretes; list of length >= 1; AST with >= 2 alternatives or an architecture list; (op,N,V) with parsable N. Distinct by hash."
}
func (c06) Assumptions() []string {
	return []string{"a two-part name os-cpu denotes ABI 'any' if a part is 'any' and 'gnu' otherwise; one-part cpu denotes gnu-linux-cpu (DenoteArch in internal/model/arch.go)", "reference comparator of C01"}
}
func (c06) Exhaustive(string) bool { return true }

func (c06) Batches(tier string, seed uint64) []core.Batch {
	var b []core.Batch
	b = append(b, spread("is", 4, 0)...)
	b = append(b, core.Batch{Name: "real"})
	b = append(b, spread("set", 13, 0)...)
	b = append(b, spread("setrand", 2, tierN(tier, 10000, 60000))...)
	b = append(b, spread("poss", 8, tierN(tier, 1500, 8000))...)
	b = append(b, spread("sat", 6, 0)...)
	b = append(b, core.Batch{Name: "satmix", N: tierN(tier, 800000, 4000000)}) // 8 goroutines ask about DIFFERENT numbers at once
	return append(b, conc(tierN(tier, 120, 800), "setrand", "poss", "sat")...)
}

func (c06) Mandatory(tier string) []string {
	m := []string{"conc:different-numbers-asked-by-8-goroutines-at-once", "is:wild0:true", "is:wild0:false", "is:wild1:true", "is:wild1:false", "is:wild2:true", "is:wild2:false", "is:wild3:true", "is:all-vs-all", "is:all-vs-any:false",
		"is:via-literal", "is:via-ParseArch", "is:via-UnmarshalControl", "real:2part-vs-self", "real:2part-vs-os-any", "real:1part-vs-linux-any",
		"set:len0", "set:len1:neg:true", "set:len1:neg:false", "set:len1:pos:true", "set:len1:pos:false", "set:len2:neg:true", "set:len2:neg:false", "set:len2:pos:true", "set:len2:pos:false",
		"poss:chosen-alt0", "poss:chosen-alt1", "poss:chosen-alt2+", "poss:none-admitted", "poss:substvar-skipped", "poss:via-parse", "poss:via-literal", "poss:nil-archset",
		"sat:unparsable-number", "sat:unknown-operator"}
	for _, op := range gen.Ops {
		for _, s := range []string{"lt", "eq", "gt"} {
			m = append(m, "sat:"+op+":"+s)
		}
	}
	m = append(m, "sat:eq-textually-different")
	return m
}

var (
	c06ABI = []string{"any", "gnu", "musl", "uclibc", "gnueabihf", "gnux32"}
	c06OS  = []string{"any", "linux", "kfreebsd", "hurd"}
	c06CPU = []string{"any", "amd64", "arm64", "i386"}
)

func c06Domain() (patterns, concretes []string) {
	for _, a := range c06ABI {
		for _, o := range c06OS {
			for _, c := range c06CPU {
				n := a + "-" + o + "-" + c
				patterns = append(patterns, n)
				if a != "any" && o != "any" && c != "any" {
					concretes = append(concretes, n)
				}
			}
		}
	}
	patterns = append(patterns, "all")
	concretes = append(concretes, "all")
	return
}

// mkArch builds a library value for a name in one of three ways.
func mkArch(name, mode string) (dependency.Arch, error) {
	switch mode {
	case "literal":
		m, ok := model.DenoteArch(name)
		if !ok {
			return dependency.Arch{}, fmt.Errorf("no denotation")
		}
		if m.All {
			return dependency.Arch{ABI: "all", OS: "all", CPU: "all"}, nil
		}
		return dependency.Arch{ABI: m.ABI, OS: m.OS, CPU: m.CPU}, nil
	case "ParseArch":
		a, err := dependency.ParseArch(name)
		if err != nil {
			return dependency.Arch{}, err
		}
		// the value is the caller's; he copies it and scribbles over the original (a scratch value reused):
		// no later result may be affected
		v := *a
		*a = dependency.Arch{ABI: "edited", OS: "by", CPU: "caller"}
		return v, nil
	default: // UnmarshalControl into a fresh value
		var a dependency.Arch
		err := a.UnmarshalControl(name)
		return a, err
	}
}

var c06Modes = []string{"literal", "ParseArch", "UnmarshalControl"}

func (p c06) isPair(t *core.T, cn, pn, mode string) {
	cm, _ := model.DenoteArch(cn)
	pm, _ := model.DenoteArch(pn)
	ca, err1 := mkArch(cn, mode)
	pa, err2 := mkArch(pn, mode)
	in := []byte(cn + "|" + pn + "|" + mode)
	if err1 != nil || err2 != nil {
		t.Report("is", in, "building architecture values for %q / %q via %s failed: %v %v", cn, pn, mode, err1, err2)
		return
	}
	got, rev := ca.Is(&pa), pa.Is(&ca)
	if got != rev {
		t.Report("is", in, "Is is not symmetric: %q.Is(%q)=%v but %q.Is(%q)=%v (values %+v / %+v via %s)", cn, pn, got, pn, cn, rev, ca, pa, mode)
	}
	t.Cover("is:via-" + mode)
	if cm.Wildcard() && pm.Wildcard() {
		t.Cover("is:wildcard-vs-wildcard(symmetry only)")
		return
	}
	// one side concrete: orient so that c is the concrete one
	c, pt := cm, pm
	if c.Wildcard() {
		c, pt = pm, cm
	}
	want := model.Match(c, pt)
	if got != want {
		t.Report("is", in, "%q.Is(%q) = %v via %s (values %+v / %+v); the model says %v", cn, pn, got, mode, ca, pa, want)
	}
	w := 0
	for _, v := range []string{pt.ABI, pt.OS, pt.CPU} {
		if v == "any" {
			w++
		}
	}
	switch {
	case c.All && pt.All:
		t.Cover("is:all-vs-all")
	case c.All || pt.All:
		if pt.Wildcard() || c.Wildcard() {
			t.Cover(fmt.Sprintf("is:all-vs-any:%v", want))
		} else {
			t.Cover(fmt.Sprintf("is:all-vs-concrete:%v", want))
		}
	default:
		t.Cover(fmt.Sprintf("is:wild%d:%v", w, want))
	}
	if pt.Wildcard() || cn != pn {
		t.NontrivialKey("is", in)
	}
}

var c06Real = []string{"amd64", "arm64", "i386", "armhf", "s390x", "kfreebsd-amd64", "kfreebsd-i386", "hurd-i386", "hurd-amd64", "musl-linux-arm64", "musl-linux-amd64", "uclibc-linux-armel",
	"any", "all", "linux-any", "kfreebsd-any", "hurd-any", "any-amd64", "any-i386", "any-arm64", "gnu-any-any", "musl-any-any", "any-any-any", "any-linux-any", "any-any-amd64", "gnu-linux-any", "musl-linux-any"}

func impliedABI(n string) bool { return strings.Count(n, "-") < 2 && n != "all" && n != "any" }
func explicitABI(n string) bool {
	m, _ := model.DenoteArch(n)
	return strings.Count(n, "-") == 2 && m.ABI != "any"
}

func (p c06) RunBatch(t *core.T, b core.Batch) {
	if concDispatch(p, t, b) {
		return
	}
	patterns, concretes := c06Domain()
	switch b.Name {
	case "is":
		for ci := b.Arg; ci < len(concretes); ci += 4 {
			cn := concretes[ci]
			t.Case("is-row", []byte(cn), func(c *core.C) {
				for _, pn := range patterns {
					for _, mode := range c06Modes {
						p.isPair(t, cn, pn, mode)
						p.isPair(t, pn, cn, mode)
					}
				}
				t.Light(int64(len(patterns)*6) - 1)
			})
		}
		if b.Arg == 0 { // wildcard x wildcard: symmetry
			t.Case("is-row", []byte("wild"), func(c *core.C) {
				for _, a := range patterns {
					for _, bb := range patterns {
						p.isPair(t, a, bb, "literal")
					}
				}
				t.Light(int64(len(patterns)*len(patterns)) - 1)
			})
		}
	case "real":
		for _, a := range c06Real {
			for _, bb := range c06Real {
				if (impliedABI(a) && explicitABI(bb)) || (impliedABI(bb) && explicitABI(a)) {
					t.Cover("real:skipped-abi-table-dependent")
					continue
				}
				a, bb := a, bb
				for _, mode := range []string{"ParseArch", "UnmarshalControl"} {
					mode := mode
					t.Case("is", []byte(a+"|"+bb+"|"+mode), func(c *core.C) {
						p.isPair(t, a, bb, mode)
						am, _ := model.DenoteArch(a)
						if strings.Count(a, "-") == 1 && !am.Wildcard() {
							if a == bb {
								c.Cover("real:2part-vs-self")
							}
							if bb == strings.SplitN(a, "-", 2)[0]+"-any" {
								c.Cover("real:2part-vs-os-any")
							}
						}
						if strings.Count(a, "-") == 0 && a != "any" && a != "all" && bb == "linux-any" {
							c.Cover("real:1part-vs-linux-any")
						}
					})
				}
			}
		}
	case "set":
		for i := b.Arg; i < len(patterns); i += 13 {
			e1 := patterns[i]
			t.Case("set-row", []byte(e1), func(c *core.C) {
				n := int64(0)
				for _, neg := range []bool{false, true} {
					for _, cn := range concretes {
						if i == 0 {
							p.setCase(t, nil, neg, cn)
							n++
						}
						p.setCase(t, []string{e1}, neg, cn)
						n++
						for _, e2 := range patterns {
							p.setCase(t, []string{e1, e2}, neg, cn)
							n++
						}
					}
				}
				t.Light(n - 1)
			})
		}
	case "setrand":
		r := t.Rand("setrand", fmt.Sprint(b.Arg))
		for i := 0; i < b.N; i++ {
			var list []string
			for k := r.Range(1, 6); k > 0; k-- {
				if r.Chance(1, 3) {
					list = append(list, r.Pick(c06Real))
				} else {
					list = append(list, r.Pick(patterns))
				}
			}
			cn := r.Pick(concretes)
			neg := r.Bool()
			t.Case("set", []byte(fmt.Sprintf("%s|%v|%s", strings.Join(list, " "), neg, cn)), func(c *core.C) { p.setCase(t, list, neg, cn) })
		}
	case "poss":
		r := t.Rand("poss", fmt.Sprint(b.Arg))
		for i := 0; i < b.N; i++ {
			d := gen.Dep(r, 4, 4, true)
			if r.Chance(1, 3) { // make "none admitted" and later alternatives frequent
				for ri := range d {
					for pi := range d[ri] {
						if !d[ri][pi].Substvar && len(d[ri][pi].Archs) == 0 && r.Bool() {
							d[ri][pi].Archs = []string{r.Pick([]string{"i386", "kfreebsd-any", "hurd-any", "any-arm64"})}
							d[ri][pi].ArchNot = r.Chance(1, 4)
							d[ri][pi].GroupOrder = ""
							d[ri][pi].Normalise()
						}
					}
				}
			}
			for _, mode := range []string{"parse", "literal"} {
				in, _ := json.Marshal(map[string]interface{}{"dep": d, "mode": mode})
				t.Case("poss", in, func(c *core.C) { p.possCase(c, d, mode) })
			}
		}
	case "satmix":
		in := volInput(t.Rand("satmix").U64(), b.N)
		vc, _ := volDecode(in)
		t.Case("satmix", in, func(c *core.C) { satMix(c, t, vc) })
	case "sat":
		pool := c02Pool("quick", t.Seed)[:60]
		ops := append(append([]string{}, gen.Ops...), "", "<", ">", "==", "!=")
		for i := b.Arg % 6; i < len(pool); i += 6 {
			v := pool[i]
			t.Case("sat-row", []byte(encVer(v)), func(c *core.C) {
				n := int64(0)
				for _, nn := range pool {
					for _, op := range ops {
						p.satCase(t, op, gen.RenderVer(nn, false), v)
						n++
					}
				}
				for _, bad := range []string{"", "abc", "1 2", "a:1", "1:", "-", "1_2", "~1"} {
					for _, op := range gen.Ops {
						p.satCase(t, op, bad, v)
						n++
					}
				}
				t.Light(n - 1)
			})
		}
	}
}

func (c06) setCase(t *core.T, list []string, neg bool, cn string) {
	in := []byte(fmt.Sprintf("%s|%v|%s", strings.Join(list, " "), neg, cn))
	set := dependency.ArchSet{Not: neg}
	var ml []model.MArch
	for _, n := range list {
		a, err := mkArch(n, "literal")
		if err != nil {
			return
		}
		set.Architectures = append(set.Architectures, a)
		m, _ := model.DenoteArch(n)
		ml = append(ml, m)
	}
	ca, _ := mkArch(cn, "literal")
	cm, _ := model.DenoteArch(cn)
	got := set.Matches(&ca)
	want := model.SetAdmits(ml, neg, cm)
	if got != want {
		t.Report("set", in, "ArchSet{Not:%v, %v}.Matches(%s) = %v; the model says %v", neg, list, cn, got, want)
	}
	if len(list) == 0 {
		t.Cover("set:len0")
	} else {
		l := len(list)
		if l > 2 {
			l = 3
		}
		t.Cover(fmt.Sprintf("set:len%d:%s:%v", l, map[bool]string{true: "neg", false: "pos"}[neg], want))
		t.NontrivialKey("set", in)
	}
}

var c06Archs = []string{"amd64", "i386", "arm64", "kfreebsd-amd64", "hurd-i386", "musl-linux-arm64", "armhf", "all"}

func buildLiteral(d model.MDep, nilSets *bool) *dependency.Dependency {
	out := &dependency.Dependency{}
	for _, rel := range d {
		var lr dependency.Relation
		for _, mp := range rel {
			lp := dependency.Possibility{Name: mp.Name, Substvar: mp.Substvar}
			if !mp.Substvar {
				if mp.Qual != "" {
					a, _ := dependency.ParseArch(mp.Qual)
					lp.Arch = a
				}
				if mp.Op != "" {
					lp.Version = &dependency.VersionRelation{Operator: mp.Op, Number: mp.Ver}
				}
				if len(mp.Archs) > 0 {
					lp.Architectures = &dependency.ArchSet{Not: mp.ArchNot}
					for _, n := range mp.Archs {
						a, _ := dependency.ParseArch(n)
						lp.Architectures.Architectures = append(lp.Architectures.Architectures, *a)
					}
				} else {
					*nilSets = true // absent list left as a nil *ArchSet
				}
				for _, g := range mp.Profiles {
					var ss dependency.StageSet
					for _, s := range g {
						ss.Stages = append(ss.Stages, dependency.Stage{Not: s.Not, Name: s.Name})
					}
					lp.StageSets = append(lp.StageSets, ss)
				}
			}
			lr.Possibilities = append(lr.Possibilities, lp)
		}
		out.Relations = append(out.Relations, lr)
	}
	return out
}

func (c06) possCase(c *core.C, d model.MDep, mode string) {
	var dep *dependency.Dependency
	nilSets := false
	if mode == "parse" {
		var err error
		dep, err = dependency.Parse(d.Render(model.Canonical, false))
		if err != nil {
			c.Cover("poss:parse-rejected(C04's business)")
			return
		}
	} else {
		dep = buildLiteral(d, &nilSets)
	}
	c.Cover("poss:via-" + mode)
	if nilSets {
		c.Cover("poss:nil-archset")
	}
	nontrivial := false
	// GetAllPossibilities / GetSubstvars
	var wantAll, wantSub []model.MPoss
	for _, rel := range d {
		if len(rel) > 1 {
			nontrivial = true
		}
		for _, mp := range rel {
			if mp.Substvar {
				wantSub = append(wantSub, mp)
			} else {
				wantAll = append(wantAll, mp)
			}
			if len(mp.Archs) > 0 {
				nontrivial = true
			}
		}
	}
	cmpList := func(what string, got []dependency.Possibility, want []model.MPoss) {
		if len(got) != len(want) {
			c.Failf("%s returned %d possibilities, the model says %d (field %q)", what, len(got), len(want), d.Render(model.Canonical, false))
			return
		}
		for i := range want {
			if diff := diffPoss(got[i], want[i]); diff != "" {
				c.Failf("%s element %d: %s (field %q)", what, i, diff, d.Render(model.Canonical, false))
				return
			}
		}
	}
	pristine := normDep(dep)
	defer func() {
		if after := normDep(dep); after != pristine {
			c.Failf("the accessors modified the Dependency they were called on:\n before: %s\n after:  %s", clip(pristine, 300), clip(after, 300))
		}
	}()
	cmpList("GetAllPossibilities", dep.GetAllPossibilities(), wantAll)
	cmpList("GetSubstvars", dep.GetSubstvars(), wantSub)
	for _, an := range c06Archs {
		am, _ := model.DenoteArch(an)
		aa, _ := dependency.ParseArch(an)
		var want []model.MPoss
		for _, rel := range d {
			chosen := -1
			skipped := false
			for pi, mp := range rel {
				if mp.Substvar {
					skipped = true
					continue
				}
				var ml []model.MArch
				for _, n := range mp.Archs {
					m, _ := model.DenoteArch(n)
					ml = append(ml, m)
				}
				if model.SetAdmits(ml, mp.ArchNot, am) {
					chosen = pi
					break
				}
			}
			switch {
			case chosen < 0:
				c.Cover("poss:none-admitted")
			case chosen >= 2:
				c.Cover("poss:chosen-alt2+")
				want = append(want, rel[chosen])
			default:
				c.Cover(fmt.Sprintf("poss:chosen-alt%d", chosen))
				want = append(want, rel[chosen])
			}
			if skipped && chosen > 0 {
				c.Cover("poss:substvar-skipped")
			}
		}
		res := dep.GetPossibilities(*aa)
		cmpList("GetPossibilities("+an+")", res, want)
		// the caller owns the result: appending to it and writing into it must not reach the Dependency
		res = append(res, dependency.Possibility{Name: "appended-by-the-caller"})
		for i := range res {
			res[i].Name = "overwritten-by-the-caller"
		}
		cmpList("GetPossibilities("+an+") after the caller appended to and overwrote an earlier result", dep.GetPossibilities(*aa), want)
	}
	if nontrivial {
		c.Nontrivial()
	}
}

func (c06) satCase(t *core.T, op, n string, v model.Ver) {
	in := []byte(op + "\x1e" + n + "\x1e" + encVer(v))
	vr := dependency.VersionRelation{Operator: op, Number: n}
	got := vr.SatisfiedBy(libVer(v))
	parsable := n != "" && !strings.ContainsAny(n, " _") && n != "abc" && n != "a:1" && n != "1:" && n != "-" && n != "~1"
	if i := strings.IndexByte(n, ':'); i > 0 {
		// an epoch beyond 2^64-1 is "oversized" and rejected by the parser (C03), so the constraint is unparsable;
		// above dpkg's INT_MAX refusing and accepting are both fine (C03), and the parser's own verdict decides
		if e, err := strconv.ParseUint(n[:i], 10, 64); err != nil {
			parsable = false
		} else if e > 1<<31-1 {
			_, perr := version.Parse(n)
			parsable = perr == nil
		}
	}
	want := false
	if !parsable {
		t.Cover("sat:unparsable-number")
	} else {
		s, _ := model.RefCmp(v, splitText(n))
		switch op {
		case "<<":
			want = s < 0
		case "<=":
			want = s <= 0
		case "=":
			want = s == 0
		case ">=":
			want = s >= 0
		case ">>":
			want = s > 0
		default:
			t.Cover("sat:unknown-operator")
		}
		if op == "<<" || op == "<=" || op == "=" || op == ">=" || op == ">>" {
			t.Cover("sat:" + op + ":" + signName(s))
			if s == 0 && gen.RenderVer(v, false) != n {
				t.Cover("sat:eq-textually-different")
			}
		}
		t.NontrivialKey("sat", in)
	}
	if got != want {
		t.Report("sat", in, "VersionRelation{%q %q}.SatisfiedBy(%+v) = %v; want %v", op, n, libVer(v), got, want)
	}
}

func (p c06) RunCase(t *core.T, kind string, input []byte) {
	switch kind {
	case "is":
		parts := strings.Split(string(input), "|")
		if len(parts) == 3 {
			t.Case(kind, input, func(c *core.C) { p.isPair(t, parts[0], parts[1], parts[2]) })
		}
	case "set":
		parts := strings.Split(string(input), "|")
		if len(parts) == 3 {
			var list []string
			if parts[0] != "" {
				list = strings.Split(parts[0], " ")
			}
			t.Case(kind, input, func(c *core.C) { p.setCase(t, list, parts[1] == "true", parts[2]) })
		}
	case "poss":
		var cs struct {
			Dep  model.MDep `json:"dep"`
			Mode string     `json:"mode"`
		}
		if json.Unmarshal(input, &cs) == nil {
			t.Case(kind, input, func(c *core.C) { p.possCase(c, cs.Dep, cs.Mode) })
		}
	case "satmix":
		if vc, ok := volDecode(input); ok {
			t.Case(kind, input, func(c *core.C) { satMix(c, t, vc) })
		}
	case "sat":
		parts := strings.SplitN(string(input), "\x1e", 3)
		if len(parts) == 3 {
			t.Case(kind, input, func(c *core.C) { p.satCase(t, parts[0], parts[1], decVer(parts[2])) })
		}
	}
}
