package props

import (
	"archive/tar"
	"bytes"
	"fmt"
	"io"
	"sort"
	"strings"

	"pault.ag/go/debian/deb"

	"verif/internal/core"
	"verif/internal/model"
)

// C15 — ar and .deb readers terminate and stay consistent on arbitrary bytes.
type c15 struct{}

func init() { core.Register(c15{}) }

func (c15) ID() string    { return "C15" }
func (c15) Level() string { return "exploration" }
func (c15) Rule() string {
	return "valid archives/packages from the C13/C14 generators (stored or gzip members) with structured corruption: every header column (name, mtime, uid, gid, mode, size) of every member set to negative, -0, -60, -61, huge, blank, non-numeric or +N text; each header-magic byte wrong alone and both; truncation at every offset of small archives; members duplicated, reordered, renamed (two different control.*/data.*); sizes off by one; plus random byte strings and random byte edits. Monitors around LoadAr+Next and Load through a counting ReaderAt: at most len/60+1 sixty-byte header reads (the next one is refused, so a non-terminating loop is cut and reported), every returned member's header carries the two magic bytes, Size >= 0, its reader delivers exactly Size bytes, no panic/fatal, and 12 repeated runs agree on outcome, member list, control fields and extensions. Non-trivial = input on which at least one member was returned or an error was reported after the global header; distinct by hash of the bytes."
}
func (c15) Assumptions() []string {
	return []string{"xz/lzma/bzip2/zstd decoders on hostile streams are outside the claim: Load inputs use stored or gzip members only", "error text is not compared between runs"}
}

func (c15) Batches(tier string, seed uint64) []core.Batch {
	var b []core.Batch
	b = append(b, spread("column", 8, tierN(tier, 12, 120))...)
	b = append(b, spread("truncate", 4, tierN(tier, 3, 30))...)
	b = append(b, spread("members", 4, tierN(tier, 120, 1500))...)
	b = append(b, spread("bytes", 8, tierN(tier, 1500, 20000))...)
	return append(b, conc(tierN(tier, 60, 400), "members", "bytes")...)
}

func (c15) Mandatory(tier string) []string {
	m := []string{"ar:members-returned", "reader:overlong-SectionReader", "ar:eof", "deb:loaded", "corrupt:magic-first-byte", "corrupt:magic-second-byte", "corrupt:magic-both",
		"corrupt:truncation", "corrupt:duplicate-member", "corrupt:two-control", "corrupt:two-data", "corrupt:reordered", "corrupt:control-tar-without-control", "corrupt:bare-standard-name", "corrupt:odd-entry-names-in-control-tar", "corrupt:size+1", "corrupt:size-1", "corrupt:random-bytes"}
	for _, col := range []string{"name", "mtime", "uid", "gid", "mode", "size"} {
		m = append(m, "corrupt:column-"+col)
	}
	for _, v := range hostileVals {
		m = append(m, "corrupt:size="+v)
	}
	return m
}

type arOutcome struct {
	err     bool
	members []string // "name/size/deliveredOK"
}

func (o arOutcome) String() string { return fmt.Sprintf("err=%v members=%v", o.err, o.members) }

// iterateAr runs LoadAr+Next to the end under the monitors.
func c15IterateAr(c *core.C, raw []byte, report bool, kind int) (arOutcome, bool) {
	var out arOutcome
	// the step bound proper is on Next() calls (loop below); the read limiter only cuts a loop
	// INSIDE one call and is generous, so that an implementation reading a header twice is not flagged
	cr := &core.CountingReaderAt{In: bytes.NewReader(raw), HeaderLen: 60, Size: int64(len(raw)), Limit: 4*(len(raw)/60+1) + 16}
	var src io.ReaderAt = cr
	switch kind {
	case 1: // a reader that knows its exact size
		src = core.SizedCountingReaderAt{CountingReaderAt: cr}
	case 2: // the io.NewSectionReader(r, 0, 1<<62) idiom: a Size() that says nothing about the data
		src = io.NewSectionReader(cr, 0, 1<<62)
		c.Cover("reader:overlong-SectionReader")
	}
	ar, err := deb.LoadAr(src)
	if err != nil {
		out.err = true
		return out, false
	}
	if ar == nil {
		if report {
			c.Failf("LoadAr returned nil, nil")
		}
		return out, false
	}
	progressed := false
	for i := 0; i <= len(raw)/60+3; i++ {
		cr.Track = true
		e, err := ar.Next()
		cr.Track = false
		if cr.Exceeded {
			if report {
				c.Failf("iteration did not finish: more than %d header reads for %d input bytes (one step per 60 bytes allows %d): header reads at %v", cr.Limit, len(raw), len(raw)/60+1, tailInts(cr.Headers, 8))
			}
			out.err = true
			return out, true
		}
		if err == io.EOF {
			c.Cover("ar:eof")
			return out, progressed
		}
		if err != nil {
			out.err = true
			c.Cover("ar:error")
			return out, true
		}
		if e == nil {
			if report {
				c.Failf("Next returned nil entry and nil error")
			}
			return out, true
		}
		progressed = true
		c.Cover("ar:members-returned")
		// evidence only (implementation-specific): where the reader fetched a 60-byte header from
		if n := len(cr.Headers); n > 0 {
			c.Cover("ar:header-read-observed")
		}
		if report && e.Size < 0 {
			c.Failf("member %q returned with negative size %d", e.Name, e.Size)
		}
		delivered := int64(-1)
		var content []byte
		if e.Data != nil {
			content, _ = io.ReadAll(io.LimitReader(e.Data, int64(len(raw))+1))
			delivered = int64(len(content))
		}
		if report && e.Size >= 0 && delivered != e.Size {
			c.Failf("member %q has Size %d but its reader delivers %d bytes (input is %d bytes)", e.Name, e.Size, delivered, len(raw))
		}
		// decided on input and output alone, not on how the reader went about it: the input must hold, somewhere,
		// a 60-byte header that ends in the two-byte magic, announces this size and is followed by these bytes
		if report && e.Size >= 0 && delivered == e.Size && !c15HeaderFor(raw, e.Size, content) {
			c.Failf("member %q (size %d) was returned, but the input holds no 60-byte header ending in the magic \"`\\n\" that is followed by the %d bytes delivered", e.Name, e.Size, e.Size)
		}
		out.members = append(out.members, fmt.Sprintf("%s/%d/%d", e.Name, e.Size, delivered))
	}
	if report {
		c.Failf("iteration did not end within %d steps for %d input bytes (at most one step per 60 bytes)", len(raw)/60+3, len(raw))
	}
	return out, true
}

// c15HeaderFor: is there an offset p with raw[p+58:p+60] == "`\n", a size column raw[p+48:p+58] that
// reads as size, and raw[p+60:p+60+size] == content?
func c15HeaderFor(raw []byte, size int64, content []byte) bool {
	for p := 0; p+60 <= len(raw); p++ {
		if raw[p+58] != '`' || raw[p+59] != '\n' {
			continue
		}
		// (how the size column is spelled - padding, signs, trailing junk a lenient reader skips - is the reader's
		// business: what counts is that a header with the magic stands right in front of the delivered bytes)
		n := size
		if int64(p)+60+n > int64(len(raw)) {
			continue
		}
		if bytes.Equal(raw[p+60:int64(p)+60+n], content) {
			return true
		}
	}
	return false
}

// c15Warm: a small valid archive opened between repeated runs.
var c15Warm = model.WriteAr([]model.ArMember{{Name: "debian-binary", Timestamp: 1, Mode: "100644", Data: []byte("2.0\n")}, {Name: "x", Timestamp: 1, Mode: "100644", Data: []byte("abc")}}, true)

func tailInts(x []int64, n int) []int64 {
	if len(x) > n {
		return x[len(x)-n:]
	}
	return x
}

func (p c15) arCase(c *core.C, raw []byte) {
	first, interesting := c15IterateAr(c, raw, true, 0)
	for i := 0; i < 4; i++ {
		// other archives are opened in between: the outcome for these bytes must not depend on what the process
		// loaded before (recycled buffers, caches)
		for _, other := range [][]byte{c15Warm, []byte("!<arch>\n" + "not a header, sixty bytes long ................................")} {
			if a, err := deb.LoadAr(bytes.NewReader(other)); err == nil {
				for k := 0; k < 4; k++ {
					if _, err := a.Next(); err != nil {
						break
					}
				}
			}
		}
		// alternate between a plain ReaderAt, one that also has Size(), and an over-long SectionReader
		again, _ := c15IterateAr(c, raw, true, (i+1)%3)
		if again.String() != first.String() {
			c.Failf("iterating the same bytes twice gave different outcomes:\n %s\n %s", first, again)
			break
		}
	}
	if interesting {
		c.Nontrivial()
	}
}

func debOutcome(d *deb.Deb, err error) string {
	if err != nil {
		return "error"
	}
	var names []string
	for n, e := range d.ArContent {
		names = append(names, fmt.Sprintf("%s/%d", n, e.Size))
	}
	sort.Strings(names)
	var kv []string
	for _, k := range d.Control.Paragraph.Order {
		kv = append(kv, k+"="+d.Control.Paragraph.Values[k])
	}
	return fmt.Sprintf("ok members=%v cext=%s dext=%s package=%q version=%v control=%q", names, d.ControlExt, d.DataExt, d.Control.Package, d.Control.Version, kv)
}

func (p c15) debCase(c *core.C, raw []byte) {
	// member names that select third-party decoders are outside the claim
	for _, ext := range []string{".xz", ".lzma", ".bz2", ".zst"} {
		if bytes.Contains(raw, []byte(ext)) {
			c.Cover("deb:skipped-third-party-codec")
			return
		}
	}
	sizedToggle := false
	run := func(report bool) string {
		cr := &core.CountingReaderAt{In: bytes.NewReader(raw), HeaderLen: 60, Size: int64(len(raw)), Limit: 4*(len(raw)/60+1) + 16, Track: true}
		var src io.ReaderAt = cr
		if sizedToggle = !sizedToggle; sizedToggle {
			src = core.SizedCountingReaderAt{CountingReaderAt: cr}
		} else if len(raw)%3 == 0 {
			src = io.NewSectionReader(cr, 0, 1<<62)
		}
		d, err := deb.Load(src, "hostile.deb")
		if cr.Exceeded && report {
			c.Failf("Load did not finish: more than %d header reads for %d input bytes (one step per 60 bytes allows %d): header reads at %v", cr.Limit, len(raw), len(raw)/60+1, tailInts(cr.Headers, 8))
		}
		if err == nil && d == nil && report {
			c.Failf("Load returned nil, nil")
			return "nil"
		}
		out := debOutcome(d, err)
		if err == nil {
			if report {
				for n, e := range d.ArContent {
					if e.Size < 0 {
						c.Failf("Load: member %q has negative size %d", n, e.Size)
					}
				}
			}
			d.Close()
		}
		return out
	}
	first := run(true)
	if first == "error" {
		c.Cover("deb:error")
	} else {
		c.Cover("deb:loaded")
	}
	for i := 0; i < 12; i++ {
		if again := run(false); again != first {
			c.Failf("loading the same bytes repeatedly gave different outcomes:\n run 1: %s\n run %d: %s", first, i+2, again)
			break
		}
	}
	c.Nontrivial()
}

var headerCols = []struct {
	name     string
	off, end int
}{{"name", 0, 16}, {"mtime", 16, 28}, {"uid", 28, 34}, {"gid", 34, 40}, {"mode", 40, 48}, {"size", 48, 58}}

var hostileVals = []string{"-5", "-0", "-60", "-61", "9999999999", "blank", "abc", "+5", " -60", "  -5", "\t-61", " +7", " 12 "}

func setCol(raw []byte, hdr int64, col int, val string) []byte {
	out := append([]byte{}, raw...)
	cdef := headerCols[col]
	if val == "blank" {
		val = ""
	}
	copy(out[hdr+int64(cdef.off):hdr+int64(cdef.end)], pad(val, cdef.end-cdef.off))
	return out
}

func pad(s string, n int) string {
	if len(s) > n {
		return s[:n]
	}
	return s + strings.Repeat(" ", n-len(s))
}

func smallDeb(r *core.Rand) (debModel, []model.ArMember) {
	d, _ := genDebControl(r, nil)
	m := debModel{ControlText: d.sb.String(), ControlExt: r.Pick([]string{"", "gz"}), DataExt: r.Pick([]string{"", "gz"}), Binary: "2.0\n"}
	m.ControlFiles = genControlFiles(r, m.ControlText)
	m.DataFiles = genDataFiles(r, 3000)
	if r.Chance(1, 3) {
		m.Extras = append(m.Extras, model.ArMember{Name: "_gpgorigin", Timestamp: 1, Mode: "100644", Data: r.Bytes(r.Range(1, 100))})
	}
	ms, _ := m.members()
	return m, ms
}

func (p c15) RunBatch(t *core.T, b core.Batch) {
	if concDispatch(p, t, b) {
		return
	}
	r := t.Rand(b.Name, fmt.Sprint(b.Arg))
	both := func(tag string, raw []byte) {
		t.Case("ar-bytes", raw, func(c *core.C) { c.Cover(tag); p.arCase(c, raw) })
		t.Case("deb-bytes", raw, func(c *core.C) { p.debCase(c, raw) })
	}
	switch b.Name {
	case "column":
		for i := 0; i < b.N; i++ {
			var members []model.ArMember
			if r.Bool() {
				_, members = smallDeb(r)
			} else {
				members = genArMembers(r, 4)
				if len(members) == 0 {
					continue
				}
			}
			raw := model.WriteAr(members, true)
			offs := model.HeaderOffsets(members)
			mi := r.Intn(len(members))
			for col := range headerCols {
				for _, v := range hostileVals {
					cor := setCol(raw, offs[mi], col, v)
					tag := "corrupt:column-" + headerCols[col].name
					if headerCols[col].name == "size" {
						tag = "corrupt:size=" + v
					}
					both(tag, cor)
					if headerCols[col].name == "size" {
						t.Cover("corrupt:column-size")
					}
				}
			}
			// header magic
			for k, tag := range []string{"corrupt:magic-first-byte", "corrupt:magic-second-byte", "corrupt:magic-both"} {
				cor := append([]byte{}, raw...)
				h := offs[mi]
				if k == 0 || k == 2 {
					cor[h+58] = r.PickByte("a\n\x00'")
				}
				if k == 1 || k == 2 {
					cor[h+59] = r.PickByte("a`\x00 ")
				}
				both(tag, cor)
			}
			// size off by one
			for _, d := range []int{1, -1} {
				sz := len(members[mi].Data) + d
				if sz < 0 {
					continue
				}
				both(fmt.Sprintf("corrupt:size%+d", d), setCol(raw, offs[mi], 5, fmt.Sprint(sz)))
			}
		}
	case "truncate":
		for i := 0; i < b.N; i++ {
			var members []model.ArMember
			if i%2 == 0 {
				members = []model.ArMember{{Name: "debian-binary", Mode: "100644", Data: []byte("2.0\n")}, {Name: "control.tar", Mode: "100644", Data: writeTar([]tarEnt{{Name: "./control", Type: '0', Data: []byte("Package: a\nVersion: 1\nArchitecture: all\n"), Mode: 0o644}})},
					{Name: "data.tar", Mode: "100644", Data: r.Bytes(r.Range(0, 40))}}
			} else {
				members = genArMembers(r, 3)
				for k := range members {
					if len(members[k].Data) > 200 {
						members[k].Data = members[k].Data[:r.Range(0, 200)]
					}
				}
			}
			raw := model.WriteAr(members, r.Bool())
			for cut := 0; cut < len(raw); cut++ {
				both("corrupt:truncation", raw[:cut])
			}
		}
	case "members":
		for i := 0; i < b.N; i++ {
			_, members := smallDeb(r)
			tag := ""
			switch r.Intn(9) {
			case 8: // odd entries in front of ./control inside the control tarball: an empty name, ".", "./", "/", a one-character name
				m, _ := smallDeb(r)
				odd := tarEnt{Name: r.Pick([]string{"", ".", "./", "/", "c", "./c", "control/"}), Type: '0', Data: []byte("x"), Mode: 0o644}
				if strings.HasSuffix(odd.Name, "/") || odd.Name == "." {
					odd.Type, odd.Data = tar.TypeDir, nil
				}
				m.ControlFiles = append([]tarEnt{odd}, m.ControlFiles...)
				if ms, err := m.members(); err == nil {
					members = ms
				}
				tag = "corrupt:odd-entry-names-in-control-tar"
			case 6: // a control tarball that is well-formed but holds no control file
				var ents []tarEnt
				switch r.Intn(4) {
				case 0:
					ents = []tarEnt{{Name: "./md5sums", Type: '0', Data: []byte("d41d8cd98f00b204e9800998ecf8427e  usr/x\n"), Mode: 0o644}}
				case 1:
					ents = nil // an empty tar: two zero blocks
				case 2:
					ents = []tarEnt{{Name: "./", Type: tar.TypeDir, Mode: 0o755}, {Name: "./control/", Type: tar.TypeDir, Mode: 0o755}}
				default:
					ents = []tarEnt{{Name: "./postinst", Type: '0', Data: []byte("#!/bin/sh\n"), Mode: 0o755}, {Name: "./conffiles", Type: '0', Data: nil, Mode: 0o644}}
				}
				tarb := writeTar(ents)
				if strings.HasSuffix(members[1].Name, ".gz") {
					tarb, _ = compress("gz", tarb)
				}
				members[1].Data = tarb
				if r.Chance(1, 5) {
					members[1].Data = nil // a zero-length member
				}
				tag = "corrupt:control-tar-without-control"
			case 7: // an extra member named like a standard one without its extension
				extra := model.ArMember{Name: r.Pick([]string{"data", "control", "data/", "debian-binary.old", "control/"}), Mode: "100644", Data: r.Bytes(r.Range(0, 40))}
				pos := 1 + r.Intn(len(members))
				members = append(members[:pos], append([]model.ArMember{extra}, members[pos:]...)...)
				tag = "corrupt:bare-standard-name"
			case 0: // same-name duplicate
				k := r.Intn(len(members))
				dup := members[k]
				dup.Data = r.Bytes(r.Range(0, 50))
				pos := r.Intn(len(members) + 1)
				members = append(members[:pos], append([]model.ArMember{dup}, members[pos:]...)...)
				tag = "corrupt:duplicate-member"
			case 1, 2: // a second, different control.*
				extra := model.ArMember{Name: r.Pick([]string{"control.tar", "control.tar.gz", "control.x", "control."}), Mode: "100644"}
				alt, _ := genDebControl(r, nil)
				tarb := writeTar([]tarEnt{{Name: "./control", Type: '0', Data: []byte(alt.sb.String()), Mode: 0o644}})
				if strings.HasSuffix(extra.Name, ".gz") {
					tarb, _ = compress("gz", tarb)
				}
				extra.Data = tarb
				if extra.Name == members[1].Name {
					extra.Name = "control.tar.x"
				}
				pos := r.Intn(len(members) + 1)
				members = append(members[:pos], append([]model.ArMember{extra}, members[pos:]...)...)
				tag = "corrupt:two-control"
			case 3: // a second, different data.*
				extra := model.ArMember{Name: r.Pick([]string{"data.tar", "data.tar.gz", "data.x"}), Mode: "100644", Data: writeTar(genDataFiles(r, 100))}
				if strings.HasSuffix(extra.Name, ".gz") {
					extra.Data, _ = compress("gz", extra.Data)
				}
				if extra.Name == members[2].Name {
					extra.Name = "data.tar.x"
				}
				pos := r.Intn(len(members) + 1)
				members = append(members[:pos], append([]model.ArMember{extra}, members[pos:]...)...)
				tag = "corrupt:two-data"
			default: // reorder
				perm := r.Perm(len(members))
				nm := make([]model.ArMember, len(members))
				for a, bb := range perm {
					nm[a] = members[bb]
				}
				members = nm
				tag = "corrupt:reordered"
			}
			both(tag, model.WriteAr(members, true))
		}
	case "bytes":
		for i := 0; i < b.N; i++ {
			var raw []byte
			switch r.Intn(4) {
			case 0:
				raw = append([]byte("!<arch>\n"), r.Bytes(r.Range(0, 300))...)
			case 1:
				raw = r.Bytes(r.Range(0, 200))
			default:
				_, members := smallDeb(r)
				raw = model.WriteAr(members, true)
				for k := r.Range(1, 3); k > 0; k-- {
					pos := r.Intn(len(raw))
					if pos < 200 || r.Bool() { // favour the structural bytes
						pos = r.Intn(min(len(raw), 8+60+4+60))
					}
					raw[pos] = r.PickByte("-0123456789 `\n\x00a/+")
				}
			}
			both("corrupt:random-bytes", raw)
		}
	}
}

func min(a, b int) int {
	if a < b {
		return a
	}
	return b
}

func (p c15) RunCase(t *core.T, kind string, input []byte) {
	switch kind {
	case "ar-bytes":
		t.Case(kind, input, func(c *core.C) { p.arCase(c, input) })
	case "deb-bytes":
		t.Case(kind, input, func(c *core.C) { p.debCase(c, input) })
	}
}
