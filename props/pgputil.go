package props

import (
	"bytes"
	"crypto"
	"sync"

	"golang.org/x/crypto/openpgp"
	"golang.org/x/crypto/openpgp/packet"
)

// Test keys are generated once per worker process (crypto/rand: the bytes
// differ from run to run, which is why every OpenPGP oracle is differential
// and every replay file carries its own keyring and signed bytes).
var (
	pgpOnce sync.Once
	pgpKeys []*openpgp.Entity
)

func testKeys(bits int) []*openpgp.Entity {
	pgpOnce.Do(func() {
		cfg := &packet.Config{RSABits: bits, DefaultHash: crypto.SHA256}
		for _, n := range []string{"Alice Archive", "Bob Builder", "Mallory Outsider"} {
			e, err := openpgp.NewEntity(n, "verif", n[:3]+"@example.org", cfg)
			if err != nil {
				panic(err)
			}
			// self-signatures are needed for the key to be usable after a
			// serialise/parse round trip
			for _, id := range e.Identities {
				id.SelfSignature.SignUserId(id.UserId.Id, e.PrimaryKey, e.PrivateKey, cfg)
			}
			pgpKeys = append(pgpKeys, e)
		}
	})
	return pgpKeys
}

func serializeKeyring(ents []*openpgp.Entity) []byte {
	var buf bytes.Buffer
	for _, e := range ents {
		e.Serialize(&buf)
	}
	return buf.Bytes()
}

func parseKeyring(b []byte) openpgp.EntityList {
	if len(b) == 0 {
		return openpgp.EntityList{}
	}
	el, err := openpgp.ReadKeyRing(bytes.NewReader(b))
	if err != nil {
		return openpgp.EntityList{}
	}
	return el
}
