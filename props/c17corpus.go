package props

import (
	"bytes"
	"compress/gzip"
	"fmt"
	"io"
	"os"
	"os/exec"
	"path/filepath"
	"regexp"
	"sort"
	"strings"
	"time"

	"pault.ag/go/debian/changelog"

	"verif/internal/core"
	"verif/internal/model"
)

// Realistic workload for C17: the Debian changelogs installed on this machine
// (/usr/share/doc/*/changelog.Debian.gz), read by the library and by
// dpkg-parsechangelog. A file counts as "made of dpkg-format entries" when
// dpkg-parsechangelog reads it without a single warning; for those the library
// must return the same entries (count, order, source, version, distributions,
// maintainer, instant and zone offset) or - for a file with a malformed part -
// an error; what it may not do is return fewer entries without an error, or
// refuse a file dpkg reads cleanly.

func c17CorpusFiles() []string {
	files, _ := filepath.Glob("/usr/share/doc/*/changelog.Debian.gz")
	sort.Strings(files)
	return files
}

func (p c17) corpusBatch(t *core.T, b core.Batch) {
	files := c17CorpusFiles()
	if len(files) == 0 || !have("dpkg-parsechangelog") {
		t.Cover("corpus:unavailable")
		return
	}
	step := tierN(t.Tier, 6, 1) // quick: every sixth file, thorough: all of them
	for i := b.Arg * step; i < len(files); i += 8 * step {
		fh, err := os.Open(files[i])
		if err != nil {
			continue
		}
		gz, err := gzip.NewReader(fh)
		if err != nil {
			fh.Close()
			continue
		}
		text, err := io.ReadAll(io.LimitReader(gz, 8<<20))
		fh.Close()
		if err != nil || len(text) == 0 {
			continue
		}
		t.Case("corpus", text, func(c *core.C) { p.corpusCase(c, t, text) })
	}
}

// dpkgDate reads the trailer date the way dpkg does (any run of blanks, one- or two-digit day).
func dpkgDate(s string) (time.Time, bool) {
	s = strings.Join(strings.Fields(s), " ")
	for _, layout := range []string{"Mon, 2 Jan 2006 15:04:05 -0700", "2 Jan 2006 15:04:05 -0700"} {
		if tm, err := time.Parse(layout, s); err == nil {
			return tm, true
		}
	}
	return time.Time{}, false
}

func (p c17) corpusCase(c *core.C, t *core.T, text []byte) {
	dir := t.WorkDir
	if dir == "" {
		dir = os.Getenv("VERIF_WORK_RUN")
	}
	if dir == "" {
		return
	}
	fp := filepath.Join(dir, fmt.Sprintf("c17-corpus-%d.changelog", os.Getpid()))
	if os.WriteFile(fp, text, 0o644) != nil {
		return
	}
	defer os.Remove(fp)
	cmd := exec.Command("dpkg-parsechangelog", "-l", fp, "--all", "--format", "rfc822")
	var out, eb bytes.Buffer
	cmd.Stdout, cmd.Stderr = &out, &eb
	if err := cmd.Run(); err != nil || eb.Len() > 0 {
		c.Cover("corpus:skipped-dpkg-warns-or-fails") // not cleanly dpkg-format: outside the statement's first sentence
		return
	}
	ref, ok := model.RefRead(out.String())
	if !ok || len(ref) == 0 {
		c.Cover("corpus:skipped-dpkg-output-unreadable")
		return
	}
	c.Cover("corpus:files-dpkg-reads-cleanly")
	c.Nontrivial()
	// "made of dpkg-format entries" proper: apart from blank and comment lines, every line that starts in column 0
	// is an entry header; files that also carry ancient-format entries or editor variable blocks at their end
	// (which dpkg skips silently) may be refused - but not silently shortened
	pure := true
	for _, l := range strings.Split(string(text), "\n") {
		if l == "" || l[0] == ' ' || l[0] == '#' || strings.TrimSpace(l) == "" {
			continue // (a line indented with a TAB is not: deb-changelog(5) indents with blanks)
		}
		if !c17HeaderRe.MatchString(l) {
			pure = false
			break
		}
	}
	got, err := changelog.Parse(bytes.NewReader(text))
	if err != nil && !pure {
		c.Cover("corpus:refused-file-with-non-entry-lines")
		return
	}
	if err != nil {
		c.Failf("Parse refuses an installed Debian changelog that dpkg-parsechangelog reads without a warning (%d entries): %v\nlast lines: %q", len(ref), err, tail(string(text), 300))
		return
	}
	if len(got) != len(ref) {
		c.Failf("Parse returned %d entries and no error, dpkg-parsechangelog reads %d\nlast lines: %q", len(got), len(ref), tail(string(text), 300))
		return
	}
	for k, e := range got {
		get := func(f string) string { return strings.Join(ref[k].Lines[f], "\n") }
		if e.Source != get("Source") || e.Version.String() != get("Version") && strings.TrimPrefix(get("Version"), "0:") != e.Version.String() || e.Target != get("Distribution") || e.ChangedBy != get("Maintainer") {
			c.Failf("entry %d: library {%q %q %q %q}, dpkg-parsechangelog {%q %q %q %q}", k, e.Source, e.Version.String(), e.Target, e.ChangedBy, get("Source"), get("Version"), get("Distribution"), get("Maintainer"))
			return
		}
		if want, ok := dpkgDate(get("Date")); ok {
			_, wo := want.Zone()
			_, go_ := e.When.Zone()
			if !e.When.Equal(want) || wo != go_ {
				c.Failf("entry %d: When = %v, the trailer says %q", k, e.When, get("Date"))
				return
			}
		}
	}
	c.Cover("corpus:agreed-with-dpkg-parsechangelog")
}

// dpkg's entry header: source (version) distribution(s); options
var c17HeaderRe = regexp.MustCompile(`(?i)^\w[-+0-9a-z.]* \([^\(\) \t]+\)(\s+[-+0-9a-z.]+)+;`)

func tail(s string, n int) string {
	if len(s) > n {
		return s[len(s)-n:]
	}
	return s
}
