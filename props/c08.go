package props

import (
	"bytes"
	"encoding/json"
	"fmt"
	"strings"

	"pault.ag/go/debian/control"

	"verif/internal/core"
	"verif/internal/gen"
	"verif/internal/model"
)

// C08 — writing paragraphs and reading them back preserves their content.
type c08 struct{}

func init() { core.Register(c08{}) }

func (c08) ID() string    { return "C08" }
func (c08) Level() string { return "exploration" }
func (c08) Rule() string {
	return "paragraphs of 1..5 fields whose values are line sequences (non-empty first line; interior and trailing empty lines, runs of 2-3 empty lines, indented lines, lines starting with '#'; trailing newline present or absent; single-line and empty values) are written with WriteTo, the written bytes scanned line by line (no empty or blank-only line before the end), and read back (exactly one paragraph, same Order, same logical lines). Documents from the C07 generator are cycled read->write->read 4 times (paragraphs identical each cycle, text identical from the first written form on, length not growing). 1..6 non-empty structs written through one Encoder one by one and as a slice must read back as the same number of paragraphs. Excluded by construction (recorded as known findings): values/documents whose first logical line is empty while the value is not. Non-trivial = paragraph with a multi-line value, document with >= 1 continuation line, encoder run of >= 2 structs. Distinct by hash."
}
func (c08) Assumptions() []string {
	return []string{"lines equal to '.' or with trailing blanks are not generated (deb822 cannot represent them)", "class 'first logical line empty' is excluded and pinned as two known findings (see DESIGN C08)"}
}

func (c08) Batches(tier string, seed uint64) []core.Batch {
	var b []core.Batch
	b = append(b, spread("para", 8, tierN(tier, 5000, 25000))...)
	b = append(b, spread("cycle", 8, tierN(tier, 1500, 8000))...)
	b = append(b, spread("encoder", 4, tierN(tier, 1200, 6000))...)
	b = append(b, spread("corpus", 4, 0)...) // installed DEP-5 copyright files and dpkg database stanzas: read, write, read
	return append(b, conc(tierN(tier, 150, 1000), "para", "encoder")...)
}

func (c08) Mandatory(tier string) []string {
	return []string{"shape:single", "shape:multi", "shape:interior-empty", "shape:empty-run>=2", "shape:indented", "shape:trailing-empty-line", "shape:trailing-NL", "shape:no-trailing-NL",
		"shape:empty-value", "shape:hash-line", "cycle:documents", "cycle:with-continuations", "cycle:via-Encoder", "writer:broke-down-in-an-earlier-call", "encoder:one-by-one", "encoder:slice", "encoder:mixed-call-sequence", "encoder:empty-struct-in-sequence", "encoder:n>=2", "shape:line>=4096-bytes"}
}

type c08Field struct {
	Name  string   `json:"n"`
	Lines []string `json:"l"`
	NL    bool     `json:"nl"`
}

func (f c08Field) value() string {
	v := strings.Join(f.Lines, "\n")
	if len(f.Lines) > 0 && (f.NL || f.Lines[len(f.Lines)-1] == "") {
		v += "\n"
	}
	return v
}

func c08GenField(r *core.Rand, name string) c08Field {
	f := c08Field{Name: name, NL: r.Bool()}
	switch r.Intn(8) {
	case 0: // empty value
		f.NL = false
		return f
	case 1, 2: // single line
		f.Lines = []string{c08FirstLine(r)}
		return f
	}
	f.Lines = []string{c08FirstLine(r)}
	for k := r.Range(1, 6); k > 0; k-- {
		switch r.Intn(7) {
		case 0:
			f.Lines = append(f.Lines, "")
		case 1:
			for j := r.Range(2, 3); j > 0; j-- {
				f.Lines = append(f.Lines, "")
			}
		case 2:
			f.Lines = append(f.Lines, r.Pick([]string{" ", "  ", "\t", " \t "})+gen.ValueLine(r))
		case 3:
			f.Lines = append(f.Lines, r.Pick([]string{"#not a comment", "..", ". x", "Key: value", "-- ", ".hidden", " .", "  .", "\t."}))
			f.Lines[len(f.Lines)-1] = strings.TrimRight(f.Lines[len(f.Lines)-1], " ")
		default:
			f.Lines = append(f.Lines, gen.ValueLine(r))
		}
	}
	return f
}

// c08FirstLine: the first logical line of a value; now and then it is itself indented (a hand-built
// value such as " * item"), which the writer cannot put right after the colon, where readers strip it.
func c08FirstLine(r *core.Rand) string {
	l := gen.ValueLine(r)
	if r.Chance(1, 6) {
		// (also the white space that is not a blank or a tab: readers strip all of it around a first line)
		l = r.Pick([]string{" ", "\t", "   ", " \t", " ", "\t", "\f", "\v", "\u00a0", "\u3000", "\u0085 "}) + l
	}
	return l
}

// breakingWriter accepts `left` bytes and then fails every write (short write + error).
type breakingWriter struct {
	left int
	got  []byte
}

func (w *breakingWriter) Write(p []byte) (int, error) {
	if len(p) <= w.left {
		w.left -= len(p)
		w.got = append(w.got, p...)
		return len(p), nil
	}
	n := w.left
	w.left = 0
	w.got = append(w.got, p[:n]...)
	return n, errInjectedRead
}

func scanWritten(c *core.C, what string, out []byte) {
	if len(out) == 0 {
		return
	}
	if out[len(out)-1] != '\n' {
		c.Failf("%s: written paragraph does not end with a newline: %q", what, out)
	}
	lines := strings.Split(strings.TrimSuffix(string(out), "\n"), "\n")
	for i, l := range lines {
		if strings.TrimRight(l, " \t\r") == "" {
			c.Failf("%s: written paragraph contains an empty or blank-only line (line %d: %q) in %q", what, i, l, out)
			return
		}
	}
}

func (p c08) paraCase(c *core.C, fields []c08Field) {
	para := control.Paragraph{Values: map[string]string{}}
	multi := false
	for _, f := range fields {
		para.Order = append(para.Order, f.Name)
		para.Values[f.Name] = f.value()
		n := len(f.Lines)
		switch {
		case n == 0:
			c.Cover("shape:empty-value")
		case n == 1:
			c.Cover("shape:single")
		default:
			c.Cover("shape:multi")
			multi = true
		}
		run := 0
		for i, l := range f.Lines {
			if l == "" {
				run++
				if i < n-1 {
					c.Cover("shape:interior-empty")
				} else {
					c.Cover("shape:trailing-empty-line")
				}
				if run >= 2 {
					c.Cover("shape:empty-run>=2")
				}
			} else {
				run = 0
			}
			if strings.HasPrefix(l, " ") || strings.HasPrefix(l, "\t") {
				c.Cover("shape:indented")
			}
			if strings.HasPrefix(l, "#") {
				c.Cover("shape:hash-line")
			}
			if len(l) >= 4096 {
				c.Cover("shape:line>=4096-bytes")
			}
		}
		if n > 0 {
			if strings.HasSuffix(f.value(), "\n") {
				c.Cover("shape:trailing-NL")
			} else {
				c.Cover("shape:no-trailing-NL")
			}
		}
	}
	var buf bytes.Buffer
	var broken []*breakingWriter
	var brokenErr []error
	// now and then the paragraph first goes to a writer that breaks down part-way (a full disk, a closed
	// connection); whatever that attempt left behind must not leak into later output
	if len(fields)%3 == 1 {
		k := 1
		for _, f := range fields {
			k += len(f.Name)
		}
		broken = append(broken, &breakingWriter{left: k}, &breakingWriter{left: 0})
		for _, w := range broken {
			brokenErr = append(brokenErr, para.WriteTo(w))
		}
		c.Cover("writer:broke-down-in-an-earlier-call")
	}
	if err := para.WriteTo(&buf); err != nil {
		c.Failf("WriteTo failed: %v", err)
		return
	}
	// a write that reports success has delivered the paragraph: what a writer that broke down accepted before
	// WriteTo returned nil must be the whole text
	for i, w := range broken {
		if brokenErr[i] == nil && !bytes.Equal(w.got, buf.Bytes()) {
			c.Failf("WriteTo returned nil although the writer failed after accepting %d bytes: it holds %q, the paragraph is %q", len(w.got), w.got, buf.Bytes())
		} else if brokenErr[i] != nil {
			c.Cover("writer:failure-reported")
		}
	}
	scanWritten(c, "WriteTo", buf.Bytes())
	got, err := c07Read("All", "string", buf.String(), 1)
	if err != nil {
		c.Failf("reading back the written paragraph failed: %v\nwritten: %q", err, buf.String())
		return
	}
	want := model.RefPara{Lines: map[string][]string{}}
	for _, f := range fields {
		want.Order = append(want.Order, f.Name)
		want.Lines[f.Name] = f.Lines
	}
	if diff := diffParas(got, []model.RefPara{want}); diff != "" {
		c.Failf("write then read: %s\nwritten: %q", diff, buf.String())
	}
	if multi {
		c.Nontrivial()
	}
}

func writeDoc(ps []control.Paragraph) (string, error) {
	var buf bytes.Buffer
	for i := range ps {
		if i > 0 {
			buf.WriteString("\n")
		}
		if err := ps[i].WriteTo(&buf); err != nil {
			return "", err
		}
	}
	return buf.String(), nil
}

// writeDocEncoder: the same paragraphs sent out through one Encoder, each wrapped in a struct that embeds it
// (how a document type with pass-through fields is written).
func writeDocEncoder(ps []control.Paragraph) (string, error) {
	var buf bytes.Buffer
	enc, err := control.NewEncoder(&buf)
	if err != nil {
		return "", err
	}
	for i := range ps {
		if err := enc.Encode(pWrap{ps[i]}); err != nil {
			return "", err
		}
	}
	return buf.String(), nil
}

func parasToRef(ps []control.Paragraph) []model.RefPara {
	var out []model.RefPara
	for _, g := range ps {
		rp := model.RefPara{Order: append([]string{}, g.Order...), Lines: map[string][]string{}}
		for k, v := range g.Values {
			rp.Lines[k] = model.ValueLines(v)
		}
		out = append(out, rp)
	}
	return out
}

// firstLineEmptyClass: a field whose first logical line is empty although
// the value is not (excluded class, see DESIGN C08).
func firstLineEmptyClass(d model.Doc) bool {
	for _, p := range d.Paras {
		for _, f := range p.Fields {
			if f.First == "" && len(f.Cont) > 0 && f.Cont[0].Content == "." {
				return true
			}
		}
	}
	return false
}

func (p c08) cycleText(c *core.C, text string, excluded bool) {
	ps, err := c07Read("All", "string", text, 1)
	if err != nil {
		c.Cover("cycle:reader-rejected")
		return
	}
	c.Cover("cycle:documents")
	ref := parasToRef(ps)
	prevText := ""
	viaEncoder := len(text)%3 == 0
	for cycle := 1; cycle <= 4; cycle++ {
		out, err := writeDoc(ps)
		if viaEncoder {
			out, err = writeDocEncoder(ps)
			c.Cover("cycle:via-Encoder")
		}
		if err != nil {
			c.Failf("cycle %d: writing failed (via Encoder: %v): %v", cycle, viaEncoder, err)
			return
		}
		for _, para := range strings.Split(out, "\n\n") {
			if para != "" {
				if !strings.HasSuffix(para, "\n") {
					para += "\n"
				}
				scanWritten(c, fmt.Sprintf("cycle %d", cycle), []byte(para))
			}
		}
		ps2, err := c07Read("All", "string", out, 1)
		if err != nil {
			c.Failf("cycle %d: the written document is rejected by the reader: %v\nwritten: %q", cycle, err, out)
			return
		}
		if diff := diffParas(ps2, ref); diff != "" {
			c.Failf("cycle %d: read(write(read(D))) differs from read(D): %s\noriginal: %q\nwritten: %q", cycle, diff, text, out)
			return
		}
		if cycle > 1 && out != prevText {
			c.Failf("cycle %d: the written text changed between cycles (len %d -> %d):\n before: %q\n after:  %q", cycle, len(prevText), len(out), prevText, out)
			return
		}
		prevText = out
		ps = ps2
	}
}

type encS struct {
	A string
	B string `control:"X-B"`
	C string `multiline:"true"`
	D string `control:"Description"`
}

// encoderMixed: one Encoder, a sequence of Encode calls each taking a
// single struct, a pointer or a slice (possibly empty).
func (p c08) encoderMixed(c *core.C, items []encS, cuts []int) {
	var buf bytes.Buffer
	enc, _ := control.NewEncoder(&buf)
	i, call := 0, 0
	desc := ""
	for i < len(items) {
		n := cuts[call%len(cuts)]
		call++
		var err error
		switch {
		case n == 0:
			err = enc.Encode([]encS{})
			desc += "[] "
		case n == 1 && call%2 == 0:
			err = enc.Encode(&items[i])
			desc += "* "
			i++
		case n == 1:
			err = enc.Encode(items[i])
			desc += "1 "
			i++
		default:
			if i+n > len(items) {
				n = len(items) - i
			}
			err = enc.Encode(items[i : i+n])
			desc += fmt.Sprintf("[%d] ", n)
			i += n
		}
		if err != nil {
			c.Failf("Encode failed in call sequence %s: %v", desc, err)
			return
		}
	}
	got, err := c07Read("All", "string", buf.String(), 1)
	if err != nil {
		c.Failf("Encode call sequence %s: output rejected by the reader: %v\noutput: %q", desc, err, buf.String())
		return
	}
	nonEmpty := 0
	for _, it := range items {
		if it != (encS{}) {
			nonEmpty++
		} else {
			c.Cover("encoder:empty-struct-in-sequence")
		}
	}
	if len(got) != nonEmpty {
		c.Failf("Encode call sequence %s: %d non-empty structs written, %d paragraphs read back\noutput: %q", desc, nonEmpty, len(got), buf.String())
	}
	c.Cover("encoder:mixed-call-sequence")
}

func (p c08) encoderCase(c *core.C, items []encS) {
	cr := core.NewRand(uint64(len(items))*977+uint64(len(items[0].A)), "cuts")
	for k := 0; k < 3; k++ {
		cuts := []int{cr.Range(0, 3), cr.Range(1, 3), cr.Range(0, 2), 1, cr.Range(1, 3)}
		p.encoderMixed(c, items, cuts)
	}
	if len(items) >= 2 { // a struct whose fields are all omitted, between two others
		withEmpty := append(append(append([]encS{}, items[:1]...), encS{}), items[1:]...)
		p.encoderMixed(c, withEmpty, []int{1, 1, 1, 2})
		p.encoderMixed(c, withEmpty, []int{3, 1})
	}
	for _, mode := range []string{"one-by-one", "slice"} {
		var buf bytes.Buffer
		enc, err := control.NewEncoder(&buf)
		if err != nil {
			c.Failf("NewEncoder: %v", err)
			return
		}
		if mode == "slice" {
			err = enc.Encode(items)
		} else {
			for i := range items {
				if err = enc.Encode(&items[i]); err != nil {
					break
				}
			}
		}
		if err != nil {
			c.Failf("Encode (%s) failed: %v", mode, err)
			continue
		}
		got, err := c07Read("All", "string", buf.String(), 1)
		if err != nil {
			c.Failf("Encode (%s): output rejected by the reader: %v\noutput: %q", mode, err, buf.String())
			continue
		}
		if len(got) != len(items) {
			c.Failf("Encode (%s): %d structs written, %d paragraphs read back\noutput: %q", mode, len(items), len(got), buf.String())
		}
		c.Cover("encoder:" + mode)
	}
	if len(items) >= 2 {
		c.Cover("encoder:n>=2")
		c.Nontrivial()
	}
}

func (p c08) RunBatch(t *core.T, b core.Batch) {
	if concDispatch(p, t, b) {
		return
	}
	r := t.Rand(b.Name, fmt.Sprint(b.Arg))
	switch b.Name {
	case "corpus":
		docs := append([]string{}, corpusDep5()...)
		st := corpusStanzas()
		for lo := 0; lo < len(st); lo += 60 {
			docs = append(docs, strings.Join(st[lo:min(lo+60, len(st))], "\n"))
		}
		if len(docs) == 0 {
			t.Cover("corpus:unavailable")
			return
		}
		step := tierN(t.Tier, 4, 1)
		for i := b.Arg * step; i < len(docs); i += 4 * step {
			text := docs[i]
			t.Case("cycle", []byte(text), func(c *core.C) {
				p.cycleText(c, text, false)
				c.Cover("corpus:real-documents-cycled")
				c.Nontrivial()
			})
		}
	case "para":
		names := []string{"Package", "Description", "X-Foo", "Changes", "Files", "a", "Field.name", "Depends", "Tag"}
		for i := 0; i < b.N; i++ {
			perm := r.Perm(len(names))
			var fields []c08Field
			for k := r.Range(1, 5); k > 0; k-- {
				fields = append(fields, c08GenField(r, names[perm[k]]))
			}
			in, _ := json.Marshal(fields)
			t.Case("para", in, func(c *core.C) { p.paraCase(c, fields) })
		}
	case "cycle":
		for i := 0; i < b.N; i++ {
			d := gen.Deb822Doc(r)
			if firstLineEmptyClass(d) {
				t.Cover("cycle:excluded-first-line-empty-class")
				continue
			}
			text := d.Render()
			has := strings.Contains(text, "\n ") || strings.Contains(text, "\n\t")
			t.Case("cycle", []byte(text), func(c *core.C) {
				p.cycleText(c, text, false)
				if has {
					c.Cover("cycle:with-continuations")
					c.Nontrivial()
				}
			})
		}
	case "encoder":
		for i := 0; i < b.N; i++ {
			n := r.Range(1, 6)
			items := make([]encS, n)
			for k := range items {
				items[k].A = gen.ValueLine(r)
				if r.Bool() {
					items[k].B = c08GenField(r, "b").value()
					if strings.HasPrefix(items[k].B, "\n") || items[k].B == "" {
						items[k].B = gen.ValueLine(r)
					}
				}
				if r.Bool() {
					f := c08GenField(r, "c")
					if len(f.Lines) > 0 {
						items[k].C = f.value()
					}
				}
				if r.Chance(1, 3) {
					items[k].D = gen.ValueLine(r) + "\n" + gen.ValueLine(r) + "\n\n" + r.Pick([]string{"", "\n"}) + gen.ValueLine(r)
				}
			}
			in, _ := json.Marshal(items)
			t.Case("encoder", in, func(c *core.C) { p.encoderCase(c, items) })
		}
	}
}

func (p c08) RunCase(t *core.T, kind string, input []byte) {
	switch kind {
	case "para":
		var fields []c08Field
		if json.Unmarshal(input, &fields) == nil {
			t.Case(kind, input, func(c *core.C) { p.paraCase(c, fields) })
		}
	case "cycle":
		t.Case(kind, input, func(c *core.C) { p.cycleText(c, string(input), false) })
	case "encoder":
		var items []encS
		if json.Unmarshal(input, &items) == nil {
			t.Case(kind, input, func(c *core.C) { p.encoderCase(c, items) })
		}
	}
}
