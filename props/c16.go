package props

import (
	"archive/tar"
	"bytes"
	"compress/gzip"
	"crypto"
	"encoding/json"
	"fmt"
	"io"
	"strings"

	"golang.org/x/crypto/openpgp"
	"golang.org/x/crypto/openpgp/packet"
	"pault.ag/go/debian/control"
	"pault.ag/go/debian/deb"

	"verif/internal/core"
	"verif/internal/model"
)

// C16 — debsig verification covers the content that was loaded.
type c16 struct{}

func init() { core.Register(c16{}) }

func (c16) ID() string    { return "C16" }
func (c16) Level() string { return "fault_enumeration" }
func (c16) Rule() string {
	return "signed packages (stored and gzip members, and - for the Load -> CheckDebsig -> read-the-payload sequence repeated 8..1000 times on 0.3-0.7 MB payloads - all six encodings; roles origin/maint/archive; three generated keys) are loaded and checked with CheckDebsig(keyring, role). Faults: every byte of the debian-binary, control and data members and of the _gpg<role> member x {xor 0x01, xor 0xff}; a decoy control.tar / control.tar.gz / control.x / data.tar / data.tar.gz / same-name duplicate with attacker content at every member position, each loaded 40 times; asking for an absent role; unrelated, empty and mixed keyrings. Oracle: an independent verification by the harness over the archive's own debian-binary, the single control.* and the single data.* member (OpenPGP detached signature against the same keyring): library success requires independent success and the same signer key; any flipped byte in a signed member, any decoy, an absent role or a keyring without the signer must make Load or CheckDebsig fail; the untampered package must verify. A range-logging ReaderAt checks that every member read while loading is also read while verifying. Non-trivial = every fault case; distinct by hash of the archive bytes + role + keyring."
}
func (c16) Assumptions() []string {
	return []string{"golang.org/x/crypto/openpgp signature primitives (the library's use of them is what is checked)", "flips inside the signature packet are judged differentially: OpenPGP itself tolerates some of them"}
}

func (c16) Batches(tier string, seed uint64) []core.Batch {
	var b []core.Batch
	b = append(b, spread("flip", 16, tierN(tier, 2, 12))...) // packages; each flip batch covers a 1/16 stripe of the bytes
	b = append(b, spread("decoy", 4, tierN(tier, 40, 200))...)
	b = append(b, spread("matrix", 2, tierN(tier, 60, 300))...)
	b = append(b, spread("codec", 6, tierN(tier, 2, 6))...)
	return b
}

func (c16) Mandatory(tier string) []string {
	return []string{"flip:debian-binary", "flip:control", "flip:data", "flip:signature", "flip:lib-rejected", "untampered-verified", "reader:eof-with-last-bytes", "codec:data-stored", "codec:data-gz", "codec:data-xz", "codec:data-bz2", "codec:data-lzma", "codec:data-zst", "decoy:control", "decoy:data", "decoy:same-name",
		"decoy:before-genuine", "decoy:after-genuine", "role:absent", "decoy:near-miss-name", "exposed-content-is-signed-content", "sequence:good-bad-empty-absent-good", "keyring:unrelated", "keyring:empty", "keyring:signer+others", "codec:stored", "codec:gz",
		"role:origin", "role:maint", "role:archive"}
}

type c16Case struct {
	Members []model.ArMember `json:"members"`
	Keyring []byte           `json:"keyring"`
	Alt     []byte           `json:"alt,omitempty"` // a keyring without the signer, for check sequences on one loaded Deb
	Role    string           `json:"role"`
	Fault   string           `json:"fault"`
	Repeat  int              `json:"repeat"`
	// codec batch: the uncompressed tars behind control.* / data.* (any of the six encodings)
	CtlTar  []byte `json:"ctltar,omitempty"`
	DataTar []byte `json:"datatar,omitempty"`
}

func c16Bits(tier string) int { return tierN(tier, 1024, 2048) }

// signedPackage builds a package signed by keys[signer] for role.
func signedPackage(r *core.Rand, tier, role string, signer int, gz bool) []model.ArMember {
	ext := ""
	if gz {
		ext = "gz"
	}
	ms, _, _ := signedPackageX(r, tier, role, signer, ext, ext, 0)
	return ms
}

// signedPackageX: control/data members in the given encodings; payload > 0 asks for that many bytes of
// incompressible payload in several files (so that a decompressor that reads ahead is still mid-stream
// when the signature is checked). Also returns the uncompressed control and data tars.
func signedPackageX(r *core.Rand, tier, role string, signer int, cext, dext string, payload int) ([]model.ArMember, []byte, []byte) {
	d, _ := genDebControl(r, nil)
	m := debModel{ControlText: d.sb.String(), ControlExt: cext, DataExt: dext, Binary: "2.0\n"}
	if payload > 0 && r.Chance(1, 3) { // a control file well beyond 64 KiB (long Provides/Breaks lists do that); codec batch only
		m.ControlText += "X-Long-Field: " + r.Str("abcdefghijklmnopqrstuvwxyz0123456789 ", r.Range(70000, 200000)) + "x\nX-After: " + r.Str("abcdef", 6) + "\n"
	}
	if r.Bool() { // deb(5) allows further lines after the format version; they are signed too
		m.Binary = "2.0\nreserved for future use " + r.Str("abcdef", 6) + "\n"
	}
	m.ControlFiles = []tarEnt{{Name: "./control", Type: '0', Data: []byte(m.ControlText), Mode: 0o644}}
	m.DataFiles = []tarEnt{{Name: "./usr/", Type: '5', Mode: 0o755}, {Name: "./usr/f", Type: '0', Data: r.Bytes(r.Range(1, 600)), Mode: 0o644}}
	for k := 0; payload > 0; k++ {
		n := min(payload, r.Range(40000, 120000))
		m.DataFiles = append(m.DataFiles, tarEnt{Name: fmt.Sprintf("./usr/big%d", k), Type: '0', Data: r.Bytes(n), Mode: 0o644})
		payload -= n
	}
	ms, err := m.members()
	if err != nil {
		return nil, nil, nil
	}
	var signed bytes.Buffer
	for _, x := range ms[:3] {
		signed.Write(x.Data)
	}
	var sig bytes.Buffer
	keys := testKeys(c16Bits(tier))
	if err := openpgp.DetachSign(&sig, keys[signer], bytes.NewReader(signed.Bytes()), &packet.Config{DefaultHash: crypto.SHA256}); err != nil {
		panic(err)
	}
	return append(ms, model.ArMember{Name: "_gpg" + role, Timestamp: 1700000000, Mode: "100644", Data: sig.Bytes()}), writeTar(m.ControlFiles), writeTar(m.DataFiles)
}

// indepVerify: the harness's own reading of "the signature covers the three members".
func indepVerify(members []model.ArMember, keyring openpgp.EntityList, role string) (bool, uint64, string) {
	var bin, ctl, dat, sig *model.ArMember
	for i := range members {
		m := &members[i]
		switch {
		case m.Name == "debian-binary":
			if bin != nil {
				return false, 0, "duplicate debian-binary"
			}
			bin = m
		case strings.HasPrefix(m.Name, "control."):
			if ctl != nil {
				return false, 0, "second control.* member"
			}
			ctl = m
		case strings.HasPrefix(m.Name, "data."):
			if dat != nil {
				return false, 0, "second data.* member"
			}
			dat = m
		case m.Name == "_gpg"+role:
			if sig != nil {
				return false, 0, "duplicate signature member"
			}
			sig = m
		}
	}
	if bin == nil || ctl == nil || dat == nil || sig == nil {
		return false, 0, "member missing"
	}
	signed := append(append(append([]byte{}, bin.Data...), ctl.Data...), dat.Data...)
	e, err := openpgp.CheckDetachedSignature(keyring, bytes.NewReader(signed), bytes.NewReader(sig.Data))
	if err != nil || e == nil {
		return false, 0, fmt.Sprint(err)
	}
	return true, e.PrimaryKey.KeyId, ""
}

func (p c16) run(c *core.C, cs c16Case) {
	keyring := parseKeyring(cs.Keyring)
	raw := model.WriteAr(cs.Members, true)
	wantOK, wantID, why := indepVerify(cs.Members, keyring, cs.Role)
	mustFail := cs.Fault != "none" && !strings.HasPrefix(cs.Fault, "flip:signature") && !strings.HasPrefix(cs.Fault, "keyring:signer") && !strings.HasPrefix(cs.Fault, "extra-member-early:")
	if mustFail && wantOK {
		c.Failf("harness self-check: independent verification succeeds although fault %q was injected", cs.Fault)
		return
	}
	if !mustFail && cs.Fault == "none" && !wantOK {
		c.Failf("harness self-check: the untampered package does not verify independently: %s", why)
		return
	}
	// member data ranges for the read-range monitor
	offs := model.HeaderOffsets(cs.Members)
	memberAt := func(off int64) int {
		for i := range cs.Members {
			if off >= offs[i]+60 && off < offs[i]+60+int64(len(cs.Members[i].Data)) {
				return i
			}
		}
		return -1
	}
	reps := cs.Repeat
	if reps < 1 {
		reps = 1
	}
	if cs.Fault == "none" && reps < 2 {
		reps = 2
	}
	rawNoPad := model.WriteAr(cs.Members, false)
	for rep := 0; rep < reps; rep++ {
		cr := &core.CountingReaderAt{In: bytes.NewReader(raw), HeaderLen: 60, Size: int64(len(raw))}
		if rep%2 == 1 {
			// a source that reports io.EOF together with the last bytes, over an archive that ends with the signature's last byte
			cr = &core.CountingReaderAt{In: bytes.NewReader(rawNoPad), HeaderLen: 60, Size: int64(len(rawNoPad)), ExactEOF: true}
			c.Cover("reader:eof-with-last-bytes")
		}
		d, err := deb.Load(cr, "signed.deb")
		if err != nil {
			c.Cover("flip:lib-rejected")
			if cs.Fault == "none" {
				c.Failf("Load failed on an untampered signed package: %v", err)
				return
			}
			continue
		}
		loadReads := len(cr.Reads)
		signer, verr := d.CheckDebsig(keyring, cs.Role)
		libOK := verr == nil
		if libOK && signer == nil {
			c.Failf("CheckDebsig returned neither a signer nor an error")
		}
		if libOK && !wantOK {
			c.Failf("Load and CheckDebsig(%s) both succeeded (run %d of %d) although an independent verification over the archive's members fails (%s); fault: %s; members: %s; loader exposed Package=%q",
				cs.Role, rep+1, reps, why, cs.Fault, memberNames(cs.Members), d.Control.Package)
			d.Close()
			return
		}
		if libOK && signer != nil && signer.PrimaryKey.KeyId != wantID {
			c.Failf("CheckDebsig reports signer key %X, the signature was made by %X", signer.PrimaryKey.KeyId, wantID)
		}
		if !libOK {
			c.Cover("flip:lib-rejected")
			if cs.Fault == "none" {
				c.Failf("CheckDebsig(%s) failed on an untampered package signed by a keyring key: %v", cs.Role, verr)
			}
		}
		if libOK {
			// the verified members must be the ones whose content the loader exposed
			if why := exposedDiffers(d, cs.Members, cs.CtlTar, cs.DataTar); why != "" {
				c.Failf("Load and CheckDebsig(%s) both succeeded (run %d of %d) but the loader exposed content that is not the signed members': %s; fault: %s; members: %s",
					cs.Role, rep+1, reps, why, cs.Fault, memberNames(cs.Members))
				d.Close()
				return
			}
			c.Cover("exposed-content-is-signed-content")
		}
		if libOK && cs.Fault == "none" && len(cs.Alt) > 0 {
			// a sequence of checks on the same loaded package
			alt := parseKeyring(cs.Alt)
			if _, err := d.CheckDebsig(alt, cs.Role); err == nil {
				c.Failf("after a successful check, CheckDebsig(%s) with a keyring that lacks the signer succeeded on the same Deb", cs.Role)
			}
			if _, err := d.CheckDebsig(openpgp.EntityList{}, cs.Role); err == nil {
				c.Failf("after a successful check, CheckDebsig(%s) with an empty keyring succeeded on the same Deb", cs.Role)
			}
			for _, other := range absentRoles(cs.Role) {
				if _, err := d.CheckDebsig(keyring, other); err == nil {
					c.Failf("CheckDebsig(%q) succeeded although the package only has a _gpg%s member", other, cs.Role)
				}
			}
			if s2, err := d.CheckDebsig(keyring, cs.Role); err != nil || s2 == nil || s2.PrimaryKey.KeyId != wantID {
				c.Failf("a second CheckDebsig(%s) with the right keyring on the same Deb failed: %v", cs.Role, err)
			}
			c.Cover("sequence:good-bad-empty-absent-good")
		}
		if libOK && cs.Fault == "none" {
			c.Cover("untampered-verified")
			// every member data range read while loading must be read while verifying
			inLoad, inVerify := map[int]bool{}, map[int]bool{}
			for i, rd := range cr.Reads {
				if rd[1] <= 1 {
					continue // the ar reader's one-byte "is the member complete" probe is not parsing
				}
				if m := memberAt(rd[0]); m >= 0 {
					if i < loadReads {
						inLoad[m] = true
					} else {
						inVerify[m] = true
					}
				}
			}
			// evidence only (which members an implementation touches while loading is not part of the property;
			// exposure of unsigned content is judged by the exposed-content comparison above)
			subset := true
			for m := range inLoad {
				if !inVerify[m] {
					subset = false
				}
			}
			if subset {
				c.Cover("ranges:load-subset-of-verify")
			} else {
				c.Cover("ranges:load-read-a-member-that-verify-did-not(not judged)")
			}
		}
		d.Close()
	}
	c.Nontrivial()
}

// absentRoles: role names that are not present, incl. proper prefixes and extensions of the present one.
func absentRoles(role string) []string {
	// (also the member-name prefix written out or half written out in front of the role: the member asked for would
	// be _gpg_gpgorigin, _gpggorigin, ... - none of which exists)
	out := []string{"", role[:1], role[:len(role)-1], role + "x", strings.ToUpper(role), "_gpg" + role, "gpg" + role, "g" + role, "_" + role, "p" + role, " " + role, role + " ", role + "/"}
	for _, r := range c16Roles {
		if r != role {
			out = append(out, r)
		}
	}
	return out
}

// exposedDiffers compares what the loader exposed (control paragraph, data
// listing, extensions) with the archive's single control.* / data.* member.
func exposedDiffers(d *deb.Deb, members []model.ArMember, ctlTar, dataTar []byte) string {
	var ctl, dat *model.ArMember
	for i := range members {
		switch {
		case strings.HasPrefix(members[i].Name, "control."):
			ctl = &members[i]
		case strings.HasPrefix(members[i].Name, "data."):
			dat = &members[i]
		}
	}
	if ctl == nil || dat == nil {
		return ""
	}
	open := func(m *model.ArMember, plain []byte) *tar.Reader {
		if plain != nil {
			return tar.NewReader(bytes.NewReader(plain))
		}
		var rd io.Reader = bytes.NewReader(m.Data)
		if !strings.HasSuffix(m.Name, ".gz") && !strings.HasSuffix(m.Name, ".tar") {
			return nil
		}
		if strings.HasSuffix(m.Name, ".gz") {
			g, err := gzip.NewReader(rd)
			if err != nil {
				return nil
			}
			rd = g
		}
		return tar.NewReader(rd)
	}
	if strings.TrimPrefix(d.ControlExt, ".") != strings.TrimPrefix(ctl.Name, "control.") || strings.TrimPrefix(d.DataExt, ".") != strings.TrimPrefix(dat.Name, "data.") {
		return fmt.Sprintf("ControlExt/DataExt %q/%q do not name the signed members %s/%s", d.ControlExt, d.DataExt, ctl.Name, dat.Name)
	}
	if tr := open(ctl, ctlTar); tr != nil {
		for {
			h, err := tr.Next()
			if err != nil {
				break
			}
			if strings.TrimPrefix(h.Name, "./") == "control" {
				b, _ := io.ReadAll(tr)
				ref, ok := model.RefRead(string(b))
				if ok && len(ref) == 1 {
					if diff := diffParas([]control.Paragraph{d.Control.Paragraph}, ref); diff != "" {
						return "control fields differ from the signed control member: " + diff
					}
				}
				break
			}
		}
	}
	if tr := open(dat, dataTar); tr != nil && d.Data != nil {
		want, err1 := listTar(tr)
		got, err2 := listTar(d.Data)
		if err1 == nil && (err2 != nil || fmt.Sprint(got) != fmt.Sprint(want)) {
			return fmt.Sprintf("the payload stream lists %v (err %v), the signed data member holds %v", got, err2, want)
		}
	}
	return ""
}

func (p c16) emit(t *core.T, cs c16Case, tags ...string) {
	in, _ := json.Marshal(cs)
	t.Case("sig", in, func(c *core.C) {
		for _, tg := range tags {
			c.Cover(tg)
		}
		p.run(c, cs)
	})
}

var c16Roles = []string{"origin", "maint", "archive"}

func (p c16) RunBatch(t *core.T, b core.Batch) {
	keys := testKeys(c16Bits(t.Tier))
	switch b.Name {
	case "flip":
		// the same packages in every flip batch (keyed without b.Arg); each batch takes a stripe of the bytes
		for pk := 0; pk < b.N; pk++ {
			r := t.Rand("flip-pkg", fmt.Sprint(pk))
			role := c16Roles[pk%3]
			gz := pk%2 == 1
			signer := pk % 2
			members := signedPackage(r, t.Tier, role, signer, gz)
			kr := serializeKeyring([]*openpgp.Entity{keys[signer]})
			codec := map[bool]string{true: "codec:gz", false: "codec:stored"}[gz]
			if b.Arg == 0 {
				p.emit(t, c16Case{Members: members, Keyring: kr, Alt: serializeKeyring([]*openpgp.Entity{keys[2], keys[1-signer]}), Role: role, Fault: "none", Repeat: 3}, codec, "role:"+role)
			}
			idx := 0
			for mi, m := range members {
				tag := map[int]string{0: "flip:debian-binary", 1: "flip:control", 2: "flip:data", 3: "flip:signature"}[mi]
				for off := range m.Data {
					for _, x := range []byte{0x01, 0xff} {
						idx++
						if idx%16 != b.Arg {
							continue
						}
						mm := make([]model.ArMember, len(members))
						copy(mm, members)
						nd := append([]byte{}, m.Data...)
						nd[off] ^= x
						mm[mi].Data = nd
						p.emit(t, c16Case{Members: mm, Keyring: kr, Role: role, Fault: fmt.Sprintf("%s@%d^%02x", tag, off, x)}, tag, codec)
					}
				}
			}
		}
	case "decoy":
		r := t.Rand("decoy", fmt.Sprint(b.Arg))
		for i := 0; i < b.N; i++ {
			role := r.Pick(c16Roles)
			signer := r.Intn(2)
			gz := r.Bool()
			members := signedPackage(r, t.Tier, role, signer, gz)
			kr := serializeKeyring([]*openpgp.Entity{keys[signer]})
			alt, _ := genDebControl(r, nil)
			altTar := writeTar([]tarEnt{{Name: "./control", Type: '0', Data: []byte(alt.sb.String()), Mode: 0o644}})
			altGz, _ := compress("gz", altTar)
			dataTar := writeTar([]tarEnt{{Name: "./evil", Type: '0', Data: r.Bytes(40), Mode: 0o755}})
			dataGz, _ := compress("gz", dataTar)
			decoys := []model.ArMember{{Name: "control.tar", Data: altTar}, {Name: "control.tar.gz", Data: altGz}, {Name: "control.x", Data: altTar},
				{Name: "data.tar", Data: dataTar}, {Name: "data.tar.gz", Data: dataGz},
				// zero-length decoys (a second control.*/data.* member is one whatever its size)
				{Name: "data.tar", Data: nil}, {Name: "data.tar.xz", Data: nil}, {Name: "control.tar", Data: nil}, {Name: "control.tar.zst", Data: nil},
				// near-miss names: not control.*/data.* members, so the package stays valid - but they must never be exposed
				{Name: "data-old.tar", Data: dataTar}, {Name: "database.tar.gz", Data: dataGz}, {Name: "datax.tar", Data: dataTar},
				{Name: "control-old.tar", Data: altTar}, {Name: "controlx.tar.gz", Data: altGz}, {Name: "xcontrol.tar", Data: altTar}, {Name: "xdata.tar", Data: dataTar}}
			dc := decoys[r.Intn(len(decoys))]
			dc.Mode = "100644"
			tag := "decoy:control"
			if strings.HasPrefix(dc.Name, "data") {
				tag = "decoy:data"
			}
			for _, m := range members {
				if m.Name == dc.Name {
					tag2 := "decoy:same-name"
					_ = tag2
					tag = "decoy:same-name"
				}
			}
			pos := r.Intn(len(members) + 1)
			mm := append(append(append([]model.ArMember{}, members[:pos]...), dc), members[pos:]...)
			where := "decoy:after-genuine"
			if pos <= 1 || (strings.HasPrefix(dc.Name, "data") && pos <= 2) {
				where = "decoy:before-genuine"
			}
			fault := "decoy:" + dc.Name + fmt.Sprintf("@%d", pos)
			if !strings.HasPrefix(dc.Name, "control.") && !strings.HasPrefix(dc.Name, "data.") {
				// an unrelated extra member: verification may succeed, exposure of its content may not
				fault, tag = "none", "decoy:near-miss-name"
				if pos < 3 {
					// in front of debian-binary, control or data: deb(5) and dpkg-deb fix the order of the first
					// three members, so a loader may also refuse such a package - both outcomes are fine
					fault = "extra-member-early:" + dc.Name + fmt.Sprintf("@%d", pos)
				}
			}
			p.emit(t, c16Case{Members: mm, Keyring: kr, Role: role, Fault: fault, Repeat: 40}, tag, where)
		}
	case "codec":
		// Load -> CheckDebsig -> read the payload, for members in every encoding, many times over: a
		// decompressor that reads ahead (zstd does, from its own goroutine) must not be disturbed by the
		// verification reading the same member, and vice versa.
		r := t.Rand("codec", fmt.Sprint(b.Arg))
		dext := debCodecs[b.Arg%6]
		for i := 0; i < b.N; i++ {
			cext := debCodecs[(b.Arg+i*5+i/6)%6]
			role := c16Roles[i%3]
			signer := r.Intn(2)
			members, ctlTar, dataTar := signedPackageX(r, t.Tier, role, signer, cext, dext, r.Range(300000, 700000))
			reps := tierN(t.Tier, 8, 40)
			if cext == "zst" || dext == "zst" { // the decoder that reads ahead from a goroutine of its own
				reps = tierN(t.Tier, 300, 1000)
			}
			if members == nil {
				t.Cover("~producer-failed")
				continue
			}
			p.emit(t, c16Case{Members: members, Keyring: serializeKeyring([]*openpgp.Entity{keys[signer]}), Role: role, Fault: "none", Repeat: reps, CtlTar: ctlTar, DataTar: dataTar},
				"codec:data-"+codecName(dext), "codec:control-"+codecName(cext))
		}
	case "matrix":
		r := t.Rand("matrix", fmt.Sprint(b.Arg))
		for i := 0; i < b.N; i++ {
			role := c16Roles[i%3]
			signer := r.Intn(2)
			members := signedPackage(r, t.Tier, role, signer, r.Bool())
			switch i % 5 {
			case 0: // absent role (also proper prefixes / extensions of the present one)
				ar := absentRoles(role)
				other := ar[(i/5)%len(ar)]
				p.emit(t, c16Case{Members: members, Keyring: serializeKeyring([]*openpgp.Entity{keys[signer]}), Role: other, Fault: "role-absent"}, "role:absent")
			case 1:
				p.emit(t, c16Case{Members: members, Keyring: serializeKeyring([]*openpgp.Entity{keys[2], keys[1-signer]}), Role: role, Fault: "keyring-unrelated"}, "keyring:unrelated")
			case 2:
				p.emit(t, c16Case{Members: members, Keyring: nil, Role: role, Fault: "keyring-empty"}, "keyring:empty")
			case 3:
				p.emit(t, c16Case{Members: members, Keyring: serializeKeyring([]*openpgp.Entity{keys[2], keys[signer], keys[1-signer]}), Alt: serializeKeyring([]*openpgp.Entity{keys[2]}), Role: role, Fault: "none"}, "keyring:signer+others", "role:"+role)
			default: // signature of another package
				other := signedPackage(r, t.Tier, role, signer, false)
				mm := append([]model.ArMember{}, members...)
				mm[3] = other[3]
				p.emit(t, c16Case{Members: mm, Keyring: serializeKeyring([]*openpgp.Entity{keys[signer]}), Role: role, Fault: "foreign-signature"}, "fault:foreign-signature")
			}
		}
	}
}

func (p c16) RunCase(t *core.T, kind string, input []byte) {
	var cs c16Case
	if json.Unmarshal(input, &cs) == nil {
		t.Case(kind, input, func(c *core.C) { p.run(c, cs) })
	}
}
