package props

import (
	"bytes"
	"crypto/md5"
	"crypto/sha1"
	"crypto/sha256"
	"crypto/sha512"
	"encoding/hex"
	"encoding/json"
	"fmt"
	"io"
	"strconv"
	"strings"

	"pault.ag/go/debian/control"
	"pault.ag/go/debian/hashio"

	"verif/internal/core"
)

// C12 — checksums computed and verified are the true digests.
type c12 struct{}

func init() { core.Register(c12{}) }

func (c12) ID() string    { return "C12" }
func (c12) Level() string { return "exploration" }
func (c12) Rule() string {
	return "streams of boundary lengths (0,1,55,56,63,64,65,111,112,127,128,129,4095,4096,4097) and random lengths up to 256 KiB (1 MiB thorough), cut into random chunks incl. zero-length ones, are pushed through NewHasherWriter(s)/NewHasherReader(s) for all 65 ordered subsets of {md5,sha1,sha256,sha512} plus lists with repeats; passed-through bytes, Size, Name and Sum are compared with crypto/* applied directly (also Sum with a prefix and Sum in mid-stream). Verifier truth table: entries parsed from Checksums-Sha256/-Sha512 (through BestChecksums with both/one/none present, DSC, SourceIndex) and built by FileHashFromHasher for all four algorithms x recorded hash {correct, of other content, truncated, under another algorithm, upper-case, non-hex} x stream {content, bit-flipped, truncated, other, empty}: Close()==nil iff the stream's digest under the entry's own algorithm equals the recorded hash. Each case runs in a journaled child so that a process exit inside Verifier() is attributed. Non-trivial = stream of >= 1 byte with >= 1 algorithm, or any verifier case; distinct by hash."
}
func (c12) Assumptions() []string {
	return []string{"crypto/md5, crypto/sha1, crypto/sha256, crypto/sha512 of the Go standard library"}
}

func (c12) Batches(tier string, seed uint64) []core.Batch {
	var b []core.Batch
	b = append(b, spread("stream", 8, tierN(tier, 60, 600))...)
	b = append(b, spread("verify", 8, tierN(tier, 1200, 6000))...)
	if tier == "thorough" {
		b = append(b, core.Batch{Name: "huge", Arg: 0}, core.Batch{Name: "huge", Arg: 1}) // streams beyond 2^31 and 2^32 bytes
	}
	return append(b, conc(tierN(tier, 6, 40), "stream")...)
}

func (c12) Mandatory(tier string) []string {
	m := []string{"stream:writer", "stream:reader", "stream:single-writer", "stream:single-reader", "stream:entry-sum-entry-sum", "stream:source-data+EOF", "stream:source-onebyte", "stream:source-chunks", "stream:zero-length-chunk", "stream:other-algorithm-name-rejected", "stream:subset-size-0",
		"stream:subset-size-4", "stream:repeated-algorithm", "stream:len-0", "stream:len>=4096", "stream:single-write>=256KiB-to-2+-hashers", "stream:entries-stable-after-later-entries",
		"prov:best-sha256", "prov:best-sha512", "prov:best-both", "prov:dsc-sha256", "prov:sources-sha256", "prov:dsc-md5", "prov:dsc-sha1"}
	if tier == "thorough" {
		m = append(m, "stream:len>=2^31", "stream:len>=2^32")
	}
	for _, a := range c12Algos {
		m = append(m, "prov:hasher-"+a)
		m = append(m, "verify:"+a+":accept", "verify:"+a+":reject")
	}
	for _, h := range []string{"correct", "other-content", "one-digit-off", "truncated", "leading-zeros-dropped", "other-algorithm", "upper-case", "non-hex"} {
		m = append(m, "recorded:"+h)
	}
	for _, s := range []string{"content", "bit-flipped", "truncated", "other", "empty"} {
		m = append(m, "streamkind:"+s)
	}
	return m
}

var c12Algos = []string{"md5", "sha1", "sha256", "sha512"}

func digest(algo string, data []byte) []byte {
	switch algo {
	case "md5":
		s := md5.Sum(data)
		return s[:]
	case "sha1":
		s := sha1.Sum(data)
		return s[:]
	case "sha256":
		s := sha256.Sum256(data)
		return s[:]
	case "sha512":
		s := sha512.Sum512(data)
		return s[:]
	}
	return nil
}

func orderedSubsets() [][]string {
	var out [][]string
	var rec func(cur []string, used int)
	rec = func(cur []string, used int) {
		out = append(out, append([]string{}, cur...))
		for i, a := range c12Algos {
			if used&(1<<i) == 0 {
				rec(append(cur, a), used|1<<i)
			}
		}
	}
	rec(nil, 0)
	return out
}

type c12Stream struct {
	Len   int      `json:"len"`
	Seed  uint64   `json:"seed"`
	Algos []string `json:"algos"`
	// OneWrite: the whole stream goes into the writer in a single Write call (io.Copy from a bytes.Reader does that)
	OneWrite bool `json:"onewrite,omitempty"`
}

var c12Lens = []int{0, 1, 55, 56, 63, 64, 65, 111, 112, 127, 128, 129, 4095, 4096, 4097}

func chunks(r *core.Rand, n int) []int {
	var out []int
	for n > 0 {
		var k int
		switch r.Intn(6) {
		case 0:
			k = 0
		case 1:
			k = 1
		case 2:
			k = r.Range(1, 64)
		case 3:
			k = r.Range(1, 4096)
		default:
			k = r.Range(1, 70000)
		}
		if k > n {
			k = n
		}
		out = append(out, k)
		n -= k
	}
	if r.Chance(1, 3) {
		out = append(out, 0)
	}
	return out
}

func (p c12) stream(c *core.C, cs c12Stream) {
	r := core.NewRand(cs.Seed, "c12stream")
	data := r.Bytes(cs.Len)
	check := func(what string, hs []*hashio.Hasher, algos []string, partial bool) {
		if len(hs) != len(algos) {
			c.Failf("%s: %d hashers for %d algorithms", what, len(hs), len(algos))
			return
		}
		for i, h := range hs {
			if h.Name() != algos[i] {
				c.Failf("%s: hasher %d is named %q, requested %q", what, i, h.Name(), algos[i])
			}
			if h.Size() != int64(len(data)) {
				c.Failf("%s: %s hasher reports size %d for a %d-byte stream", what, algos[i], h.Size(), len(data))
			}
			want := digest(algos[i], data)
			if got := h.Sum(nil); !bytes.Equal(got, want) {
				c.Failf("%s: %s digest of a %d-byte stream is %x, crypto says %x", what, algos[i], len(data), got, want)
			}
			if got := h.Sum([]byte("pre")); !bytes.Equal(got, append([]byte("pre"), want...)) {
				c.Failf("%s: %s Sum(prefix) = %x, want prefix+digest", what, algos[i], got)
			}
		}
	}
	// writers
	{
		var buf bytes.Buffer
		w, hs, err := hashio.NewHasherWriters(cs.Algos, &buf)
		if err != nil {
			c.Failf("NewHasherWriters(%v) failed: %v", cs.Algos, err)
			return
		}
		off := 0
		cks := chunks(r, len(data))
		var midSum, midWant []byte
		if cs.OneWrite {
			cks = []int{len(data)}
			if len(data) >= 262144 && len(cs.Algos) >= 2 {
				c.Cover("stream:single-write>=256KiB-to-2+-hashers")
			}
		}
		for i, k := range cks {
			if k == 0 {
				c.Cover("stream:zero-length-chunk")
			}
			n, err := w.Write(data[off : off+k])
			if err != nil || n != k {
				c.Failf("hashing writer: Write of %d bytes returned %d, %v", k, n, err)
				return
			}
			off += k
			if i == len(cks)/2 && len(hs) > 0 { // Sum in mid-stream must not disturb the state
				midSum = hs[0].Sum(nil)
				midWant = digest(cs.Algos[0], data[:off])
				if hs[0].Size() != int64(off) {
					c.Failf("hashing writer: Size() = %d after %d bytes", hs[0].Size(), off)
				}
			}
		}
		if !bytes.Equal(buf.Bytes(), data) {
			c.Failf("hashing writer altered or lost bytes: %d in, %d out", len(data), buf.Len())
		}
		// a digest handed out belongs to the caller: more writes and a later Sum(nil) must not change it
		if midSum != nil {
			hs[0].Sum(nil)
			if !bytes.Equal(midSum, midWant) {
				c.Failf("%s Sum(nil) taken in mid-stream was %x then; after the rest of the stream and another Sum(nil) the same slice reads %x", cs.Algos[0], midWant, midSum)
			}
			c.Cover("stream:mid-stream-digest-kept-by-the-caller")
		}
		if cs.Seed%2 == 0 {
			check("NewHasherWriters", hs, cs.Algos, false)
		}
		// building entries from a hasher must not disturb it: entry, Sum, entry, Sum
		// (for half of the cases this is the first thing that happens after the last write)
		for i, h := range hs {
			want := hex.EncodeToString(digest(cs.Algos[i], data))
			for round := 0; round < 2; round++ {
				fh := control.FileHashFromHasher("f", *h)
				if fh.Hash != want || fh.Size != int64(len(data)) || fh.Algorithm != cs.Algos[i] {
					c.Failf("FileHashFromHasher (call %d) on a %s hasher of a %d-byte stream gives hash %s size %d; want %s size %d", round+1, cs.Algos[i], len(data), fh.Hash, fh.Size, want, len(data))
				}
				if got := hex.EncodeToString(h.Sum(nil)); got != want {
					c.Failf("%s Sum after FileHashFromHasher (round %d) = %s, want %s", cs.Algos[i], round+1, got, want)
				}
			}
			c.Cover("stream:entry-sum-entry-sum")
		}
		// entries built earlier must not change when further entries are built (from any hasher, of any stream)
		if len(hs) > 0 {
			var kept, copies []control.FileHash
			for _, h := range hs {
				fh := control.FileHashFromHasher("kept", *h)
				kept = append(kept, fh)
				copies = append(copies, fh)
			}
			otherData := r.Bytes(r.Range(1, 500))
			for _, a := range c12Algos {
				if w2, h2, err := hashio.NewHasherWriter(a, io.Discard); err == nil {
					w2.Write(otherData)
					control.FileHashFromHasher("later", *h2)
				}
			}
			for i := range kept {
				want := hex.EncodeToString(digest(cs.Algos[i], data))
				if kept[i].Hash != want || copies[i].Hash != want {
					c.Failf("an entry built by FileHashFromHasher (%s, %d-byte stream) changed after further entries were built: hash now %q, was %q", cs.Algos[i], len(data), kept[i].Hash, want)
				}
			}
			c.Cover("stream:entries-stable-after-later-entries")
		}
		check("NewHasherWriters", hs, cs.Algos, false)
		c.Cover("stream:writer")
	}
	// readers, over sources that deliver the bytes in different ways (incl. the
	// last bytes together with io.EOF)
	srcKinds := []string{"chunks", "data+EOF", "string", "half"}
	if len(data) <= 3000 {
		srcKinds = append(srcKinds, "onebyte")
	}
	for _, sk := range srcKinds {
		src := mkReader(sk, string(data), cs.Seed)
		c.Cover("stream:source-" + sk)
		rd, hs, err := hashio.NewHasherReaders(cs.Algos, src)
		if err != nil {
			c.Failf("NewHasherReaders(%v) failed: %v", cs.Algos, err)
			return
		}
		var got []byte
		for {
			buf := make([]byte, r.Range(1, 9000))
			n, err := rd.Read(buf)
			got = append(got, buf[:n]...)
			if err == io.EOF {
				break
			}
			if err != nil {
				c.Failf("hashing reader: %v", err)
				return
			}
		}
		if !bytes.Equal(got, data) {
			c.Failf("hashing reader altered or lost bytes: %d in, %d out", len(data), len(got))
		}
		check("NewHasherReaders over a "+sk+" source", hs, cs.Algos, false)
		c.Cover("stream:reader")
	}
	// single-algorithm constructors
	if len(cs.Algos) > 0 {
		a := cs.Algos[0]
		var buf bytes.Buffer
		w, h, err := hashio.NewHasherWriter(a, &buf)
		if err != nil {
			c.Failf("NewHasherWriter(%s): %v", a, err)
			return
		}
		w.Write(data)
		if !bytes.Equal(buf.Bytes(), data) {
			c.Failf("NewHasherWriter altered bytes")
		}
		check("NewHasherWriter", []*hashio.Hasher{h}, []string{a}, false)
		c.Cover("stream:single-writer")
		rd, h2, err := hashio.NewHasherReader(a, mkReader([]string{"data+EOF", "string", "chunks"}[cs.Len%3], string(data), cs.Seed))
		if err != nil {
			c.Failf("NewHasherReader(%s): %v", a, err)
			return
		}
		got, _ := io.ReadAll(rd)
		if !bytes.Equal(got, data) {
			c.Failf("NewHasherReader altered bytes")
		}
		check("NewHasherReader", []*hashio.Hasher{h2}, []string{a}, false)
		c.Cover("stream:single-reader")
	}
	// the plain constructors
	for _, a := range c12Algos {
		hh, err := hashio.GetHash(a)
		if err != nil || hh == nil {
			c.Failf("GetHash(%s): %v", a, err)
			continue
		}
		hh.Write(data)
		if !bytes.Equal(hh.Sum(nil), digest(a, data)) {
			c.Failf("GetHash(%s) does not compute %s", a, a)
		}
		nh, err := hashio.NewHasher(a)
		if err != nil || nh == nil || nh.Name() != a || nh.Size() != 0 {
			c.Failf("NewHasher(%s) = %+v, %v", a, nh, err)
			continue
		}
		nh.Write(data)
		if nh.Size() != int64(len(data)) || !bytes.Equal(nh.Sum(nil), digest(a, data)) {
			c.Failf("NewHasher(%s): size %d digest %x for a %d-byte stream", a, nh.Size(), nh.Sum(nil), len(data))
		}
	}
	// Names other than the four: the statement is silent on whether they are refused (evidence only). What
	// it does cover: IF a spelling variant of one of the four is accepted, the digests reported under it
	// must still be the true digests of that algorithm.
	alias := map[string]string{"SHA256": "sha256", "MD5": "md5", "sha-256": "sha256"}
	for _, bad := range []string{"sha384", "MD5", "", "sha-256", "crc32", "SHA256"} {
		if _, err := hashio.GetHash(bad); err == nil {
			c.Cover("stream:other-algorithm-name-accepted")
		}
		h, err := hashio.NewHasher(bad)
		if err != nil || h == nil {
			c.Cover("stream:other-algorithm-name-rejected")
		} else {
			c.Cover("stream:other-algorithm-name-accepted")
			if a, ok := alias[bad]; ok {
				h.Write(data)
				if h.Size() != int64(len(data)) || !bytes.Equal(h.Sum(nil), digest(a, data)) {
					c.Failf("NewHasher(%q) was accepted but reports size %d digest %x for a %d-byte stream (true %s digest %x)", bad, h.Size(), h.Sum(nil), len(data), a, digest(a, data))
				}
			}
		}
		if _, hs, err := hashio.NewHasherWriters(append(append([]string{}, cs.Algos...), bad), io.Discard); err == nil && len(hs) > 0 {
			c.Cover("stream:other-algorithm-name-accepted")
		}
		if _, _, err := hashio.NewHasherReader(bad, bytes.NewReader(nil)); err == nil {
			c.Cover("stream:other-algorithm-name-accepted")
		}
	}
	c.Cover(fmt.Sprintf("stream:subset-size-%d", len(cs.Algos)))
	seen := map[string]bool{}
	for _, a := range cs.Algos {
		if seen[a] {
			c.Cover("stream:repeated-algorithm")
		}
		seen[a] = true
	}
	if cs.Len == 0 {
		c.Cover("stream:len-0")
	}
	if cs.Len >= 4096 {
		c.Cover("stream:len>=4096")
	}
	if cs.Len > 0 && len(cs.Algos) > 0 {
		c.Nontrivial()
	}
}

type c12Verify struct {
	Prov     string `json:"prov"`     // provenance of the entry
	Algo     string `json:"algo"`     // the entry's own algorithm
	Recorded string `json:"recorded"` // kind of recorded hash
	Stream   string `json:"stream"`   // kind of stream
	Seed     uint64 `json:"seed"`
}

type bestOnly struct {
	control.BestChecksums
}

func (p c12) verify(c *core.C, cs c12Verify) {
	r := core.NewRand(cs.Seed, "c12verify")
	content := r.Bytes(r.Range(1, 3000))
	other := r.Bytes(r.Range(1, 3000))
	// recorded hash
	var rec string
	trueHex := hex.EncodeToString(digest(cs.Algo, content))
	switch cs.Recorded {
	case "correct":
		rec = trueHex
	case "other-content":
		rec = hex.EncodeToString(digest(cs.Algo, other))
	case "truncated":
		rec = trueHex[:len(trueHex)-2*r.Range(1, 4)]
	case "one-digit-off":
		// the true digest with ONE hex digit changed: the last, the first, or one in between
		pos := []int{len(trueHex) - 1, len(trueHex) - 2, 0, 1, r.Intn(len(trueHex))}[r.Intn(5)]
		b := []byte(trueHex)
		b[pos] = "0123456789abcdef"[(strings.IndexByte("0123456789abcdef", b[pos])+1+r.Intn(15))%16]
		rec = string(b)
	case "leading-zeros-dropped":
		// a digest that starts with zero digit(s), recorded without them (as a number would print)
		want := "0"
		if r.Chance(1, 3) {
			want = "00"
		}
		for !strings.HasPrefix(trueHex, want) {
			content = r.Bytes(r.Range(1, 300))
			trueHex = hex.EncodeToString(digest(cs.Algo, content))
		}
		rec = strings.TrimLeft(trueHex, "0")
	case "other-algorithm":
		oa := c12Algos[(indexOf(c12Algos, cs.Algo)+r.Range(1, 3))%4]
		rec = hex.EncodeToString(digest(oa, content))
	case "upper-case":
		rec = strings.ToUpper(trueHex)
	case "non-hex":
		rec = "zz" + trueHex[2:]
	}
	// the stream
	var stream []byte
	switch cs.Stream {
	case "content":
		stream = content
	case "bit-flipped":
		stream = append([]byte{}, content...)
		stream[r.Intn(len(stream))] ^= 1 << uint(r.Intn(8))
	case "truncated":
		stream = content[:len(content)-1]
	case "other":
		stream = other
	case "empty":
		stream = nil
	}
	// the entry
	var fh control.FileHash
	line := fmt.Sprintf(" %s %d file.bin\n", rec, len(content))
	switch cs.Prov {
	case "best-sha256", "best-sha512", "best-both":
		text := "X: y\n"
		if cs.Prov != "best-sha512" {
			l := line
			if cs.Algo != "sha256" { // the list this entry is NOT taken from gets a decoy
				l = fmt.Sprintf(" %s %d file.bin\n", hex.EncodeToString(digest("sha256", other)), len(other))
			}
			text += "Checksums-Sha256:\n" + l
		}
		if cs.Prov != "best-sha256" {
			l := line
			if cs.Algo != "sha512" {
				l = fmt.Sprintf(" %s %d file.bin\n", hex.EncodeToString(digest("sha512", other)), len(other))
			}
			text += "Checksums-Sha512:\n" + l
		}
		var b bestOnly
		if err := control.Unmarshal(&b, strings.NewReader(text)); err != nil {
			c.Failf("Unmarshal of %q failed: %v", text, err)
			return
		}
		sums := b.Checksums()
		if len(sums) != 1 {
			c.Failf("BestChecksums.Checksums() returned %d entries for %q", len(sums), text)
			return
		}
		fh = sums[0]
	case "dsc-sha256", "dsc-md5", "dsc-sha1":
		field := map[string]string{"dsc-sha256": "Checksums-Sha256", "dsc-md5": "Files", "dsc-sha1": "Checksums-Sha1"}[cs.Prov]
		text := "Format: 1.0\nSource: x\n" + field + ":\n" + line
		var d control.DSC
		if err := control.Unmarshal(&d, strings.NewReader(text)); err != nil {
			c.Failf("Unmarshal of %q failed: %v", text, err)
			return
		}
		switch cs.Prov {
		case "dsc-sha256":
			fh = d.ChecksumsSha256[0].FileHash
		case "dsc-md5":
			fh = d.Files[0].FileHash
		default:
			fh = d.ChecksumsSha1[0].FileHash
		}
	case "sources-sha256":
		text := "Package: x\nChecksums-Sha256:\n" + line
		var s control.SourceIndex
		if err := control.Unmarshal(&s, strings.NewReader(text)); err != nil {
			c.Failf("Unmarshal of %q failed: %v", text, err)
			return
		}
		fh = s.ChecksumsSha256[0].FileHash
	default: // hasher-<algo>
		w, h, err := hashio.NewHasherWriter(cs.Algo, io.Discard)
		if err != nil {
			c.Failf("NewHasherWriter(%s): %v", cs.Algo, err)
			return
		}
		w.Write(content)
		fh = control.FileHashFromHasher("file.bin", *h)
		if fh.Hash != trueHex || fh.Size != int64(len(content)) || fh.Algorithm != cs.Algo || fh.Filename != "file.bin" {
			c.Failf("FileHashFromHasher(%s) = %+v; want hash %s size %d", cs.Algo, fh, trueHex, len(content))
		}
		fh.Hash = rec
	}
	if cs.Prov == "best-both" && fh.Algorithm != cs.Algo && (fh.Algorithm == "sha256" || fh.Algorithm == "sha512") {
		// the selector took the other of the two lists (which one is "best" is not pinned down): judge the entry by
		// the list it came from - there the recorded hash is the decoy, the digest of the OTHER content
		wantRec := hex.EncodeToString(digest(fh.Algorithm, other))
		if fh.Hash != wantRec {
			c.Failf("entry from best-both carries algorithm %q but not that field's hash: %s, the field says %s", fh.Algorithm, fh.Hash, wantRec)
		}
		cs.Algo, rec = fh.Algorithm, fh.Hash
		c.Cover("prov:best-both-took-the-other-list")
	}
	if fh.Algorithm != cs.Algo {
		c.Failf("entry from %s carries algorithm %q, its field is %s", cs.Prov, fh.Algorithm, cs.Algo)
	}
	c.Cover("prov:" + cs.Prov)
	c.Cover("recorded:" + cs.Recorded)
	c.Cover("streamkind:" + cs.Stream)
	c.Nontrivial()

	wantAccept := false
	if recBytes, err := hex.DecodeString(rec); err == nil {
		wantAccept = bytes.Equal(recBytes, digest(cs.Algo, stream))
	}
	v, err := fh.Verifier()
	accepted := false
	if err == nil {
		cr := core.NewRand(cs.Seed, "vchunks")
		off := 0
		for _, k := range chunks(cr, len(stream)) {
			n, werr := v.Write(stream[off : off+k])
			if werr != nil || n != k {
				c.Failf("verifier Write(%d bytes) = %d, %v", k, n, werr)
				return
			}
			off += k
		}
		first := v.Close()
		accepted = first == nil
		// the usual pattern is "defer v.Close()" plus an explicit Close: a second Close must not turn a stream
		// that matched into a failure
		if second := v.Close(); accepted && second != nil {
			c.Failf("verifier of a matching stream: the first Close returns nil, a second Close returns %v (%T)", second, second)
		}
	}
	c.Cover(fmt.Sprintf("verify:%s:%s", cs.Algo, map[bool]string{true: "accept", false: "reject"}[wantAccept]))
	if accepted != wantAccept {
		c.Failf("verifier of a %s entry from %s (recorded: %s, stream: %s) %s; the stream's %s digest %s the recorded hash (Verifier err: %v)",
			cs.Algo, cs.Prov, cs.Recorded, cs.Stream, map[bool]string{true: "accepted", false: "rejected"}[accepted], cs.Algo,
			map[bool]string{true: "equals", false: "differs from"}[wantAccept], err)
	}
}

func indexOf(xs []string, x string) int {
	for i, v := range xs {
		if v == x {
			return i
		}
	}
	return 0
}

func (p c12) RunBatch(t *core.T, b core.Batch) {
	if concDispatch(p, t, b) {
		return
	}
	r := t.Rand(b.Name, fmt.Sprint(b.Arg))
	switch b.Name {
	case "huge":
		in := []byte(fmt.Sprint(b.Arg))
		t.Case("huge", in, func(c *core.C) { p.huge(c, b.Arg) })
	case "stream":
		subs := orderedSubsets()
		subs = append(subs, []string{"sha256", "sha256"}, []string{"md5", "sha1", "md5"}, []string{"sha512", "sha512", "sha512", "sha1"})
		maxLen := tierN(t.Tier, 256<<10, 1<<20)
		for i := 0; i < b.N; i++ {
			cs := c12Stream{Seed: r.U64()}
			idx := i*8 + b.Arg
			cs.Algos = subs[idx%len(subs)]
			switch {
			case i < len(c12Lens):
				cs.Len = c12Lens[(i+b.Arg)%len(c12Lens)]
			case i%16 == 9 || i%16 == 10:
				cs.Len = r.Range(262144, 700000)
				cs.OneWrite = true
				if len(cs.Algos) < 2 {
					cs.Algos = []string{"md5", "sha256", "sha512"}
				}
			case r.Chance(1, 10):
				cs.Len = r.Range(65536, maxLen)
			default:
				cs.Len = r.Range(0, 20000)
			}
			in, _ := json.Marshal(cs)
			t.Case("stream", in, func(c *core.C) { p.stream(c, cs) })
		}
	case "verify":
		provs := []struct{ prov, algo string }{{"best-sha256", "sha256"}, {"best-sha512", "sha512"}, {"best-both", "sha256"}, {"dsc-sha256", "sha256"}, {"sources-sha256", "sha256"},
			{"dsc-md5", "md5"}, {"dsc-sha1", "sha1"}, {"hasher-md5", "md5"}, {"hasher-sha1", "sha1"}, {"hasher-sha256", "sha256"}, {"hasher-sha512", "sha512"}}
		recs := []string{"correct", "correct", "other-content", "one-digit-off", "one-digit-off", "truncated", "leading-zeros-dropped", "other-algorithm", "upper-case", "non-hex"}
		strs := []string{"content", "content", "bit-flipped", "truncated", "other", "empty"}
		for i := 0; i < b.N; i++ {
			pv := provs[(i+b.Arg)%len(provs)]
			cs := c12Verify{Prov: pv.prov, Algo: pv.algo, Recorded: r.Pick(recs), Stream: r.Pick(strs), Seed: r.U64()}
			in, _ := json.Marshal(cs)
			t.Case("verify", in, func(c *core.C) { p.verify(c, cs) })
		}
	}
}

func (p c12) RunCase(t *core.T, kind string, input []byte) {
	switch kind {
	case "huge":
		n, _ := strconv.Atoi(string(input))
		t.Case(kind, input, func(c *core.C) { p.huge(c, n) })
	case "stream":
		var cs c12Stream
		if json.Unmarshal(input, &cs) == nil {
			t.Case(kind, input, func(c *core.C) { p.stream(c, cs) })
		}
	case "verify":
		var cs c12Verify
		if json.Unmarshal(input, &cs) == nil {
			t.Case(kind, input, func(c *core.C) { p.verify(c, cs) })
		}
	}
}

// huge (thorough): one stream of more than 2^31 / 2^32 bytes through a hasher, in 8 MiB pieces of a repeating
// pattern: the reported size must be the number of bytes written (no 32-bit counter anywhere) and the digest that of
// the same stream computed by crypto/sha1 directly.
func (p c12) huge(c *core.C, which int) {
	total := int64(1)<<31 + 4099
	if which == 1 {
		total = int64(1)<<32 + 123
	}
	piece := make([]byte, 8<<20)
	for i := range piece {
		piece[i] = byte(i*7 + i>>9)
	}
	w, h, err := hashio.NewHasherWriter("sha1", io.Discard)
	if err != nil {
		c.Failf("NewHasherWriter(sha1): %v", err)
		return
	}
	ref := sha1.New()
	for left := total; left > 0; {
		n := int64(len(piece))
		if n > left {
			n = left
		}
		if m, err := w.Write(piece[:n]); err != nil || int64(m) != n {
			c.Failf("Write of %d bytes after %d bytes: %d, %v", n, total-left, m, err)
			return
		}
		ref.Write(piece[:n])
		left -= n
	}
	if h.Size() != total {
		c.Failf("a stream of %d bytes through one hasher: Size() = %d", total, h.Size())
	}
	fh := control.FileHashFromHasher("huge.bin", *h)
	if fh.Size != total {
		c.Failf("a stream of %d bytes through one hasher: the entry records size %d", total, fh.Size)
	}
	if want := hex.EncodeToString(ref.Sum(nil)); fh.Hash != want {
		c.Failf("a stream of %d bytes: entry digest %s, crypto/sha1 says %s", total, fh.Hash, want)
	}
	c.Cover(fmt.Sprintf("stream:len>=2^%d", 31+which))
	c.Nontrivial()
}
