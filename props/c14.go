package props

import (
	"archive/tar"
	"bytes"
	"encoding/json"
	"fmt"
	"io"
	"os"
	"os/exec"
	"path/filepath"
	"sort"
	"strings"

	"pault.ag/go/debian/deb"

	"verif/internal/core"
	"verif/internal/gen"
	"verif/internal/model"
)

// C14 — .deb loading exposes control data and payload faithfully.
type c14 struct{}

func init() { core.Register(c14{}) }

func (c14) ID() string    { return "C14" }
func (c14) Level() string { return "exploration" }
func (c14) Rule() string {
	return "package models (DEBIAN/control paragraph from the C10 generator; control.tar with './control' or 'control' first, in the middle or last among md5sums/postinst/conffiles; data.tar with directories, files of 0 B..256 KiB, symlinks; optional members _gpgorigin/_extra after data) written with the harness ar/tar writers in all 6x6 encodings {stored, gz, xz, bz2, lzma, zst} of control.tar x data.tar (every cell in every run), plus packages built by the real dpkg-deb -Z{none,gzip,xz,zstd}; loaded with Load and LoadFile. Checked: every Control field (reflective, as C10), ControlExt/DataExt, ArContent names/sizes/bytes, the data tar listing (name, type, size, content) in order, agreement of repeated loads, Close; packages with debian-binary 1.0/3.0/0.93/20.0/21.5/200.0/12.0/22, or lacking debian-binary/control.*/data.*, must be rejected. Non-trivial = any loaded package; distinct by hash of (seed, configuration)."
}
func (c14) Assumptions() []string {
	return []string{"xz/bzip2 CLIs (or python3 lzma/bz2), klauspost zstd and kjk lzma encoders and dpkg-deb are correct producers", "acceptance of format 2.x minor versions other than 2.0 is not demanded"}
}

func (c14) Batches(tier string, seed uint64) []core.Batch {
	var b []core.Batch
	b = append(b, spread("matrix", 12, tierN(tier, 2, 8))...) // each batch: 3 of the 36 cells x N
	b = append(b, spread("random", 4, tierN(tier, 40, 300))...)
	b = append(b, spread("reject", 2, tierN(tier, 21, 84))...)
	b = append(b, spread("straddle", 4, tierN(tier, 12, 120))...)
	b = append(b, spread("dpkgdeb", 4, tierN(tier, 1, 10))...)
	return b
}

func (c14) Mandatory(tier string) []string {
	var m []string
	for _, a := range debCodecs {
		for _, b := range debCodecs {
			m = append(m, fmt.Sprintf("codec:control=%s,data=%s", codecName(a), codecName(b)))
		}
	}
	return append(m, "control-position:first", "control-position:middle-or-last", "control-name:./control", "control-name:control", "extra-members", "via:Load", "via:LoadFile",
		"reject:version-1.0", "reject:version-3.0", "reject:version-0.93", "reject:version-20.0", "reject:version-21.5", "reject:version-200.0", "reject:version-12.0", "reject:version-22", "reader:eof-with-last-member-byte", "reader:one-header-read-fails-once", "via:LoadFile-symlink", "control-tar:nested-control-first", "reject:no-debian-binary", "reject:no-control", "reject:no-data", "reject:control-tar:no-control-file", "reject:control-tar:empty", "reject:control-tar:control-is-a-directory", "reject:via-LoadFile", "extra-member-with-a-bare-standard-name", "data:symlink", "data:dir", "data:empty-file", "repeat-loads-agree", "two-packages-open", "two-packages-open-after-a-double-close", "control:after-large-md5sums", "control:straddles-32KiB", "member-mtime>=2^31", "xz-dict-limit-lowered-and-restored")
}

func codecName(e string) string {
	if e == "" {
		return "stored"
	}
	return e
}

type c14Case struct {
	Seed     uint64 `json:"seed"`
	CExt     string `json:"cext"`
	DExt     string `json:"dext"`
	Variant  string `json:"variant"` // ok | version:<v> | missing:<member> | dpkg-deb:<comp>
	Straddle bool   `json:"straddle,omitempty"`
}

func genDebModel(r *core.Rand, cext, dext string) (debModel, *c10Doc, string) {
	return genDebModelX(r, cext, dext, false)
}

func genDebModelX(r *core.Rand, cext, dext string, straddle bool) (debModel, *c10Doc, string) {
	d, wantSrc := genDebControl(r, nil)
	m := debModel{ControlText: d.sb.String(), ControlExt: cext, DataExt: dext, Binary: "2.0\n"}
	if r.Chance(1, 3) { // a long unknown field makes the control file span several KiB
		m.ControlText += "X-Long-Field: " + r.Str("abcdefghijklmnopqrstuvwxyz0123456789 ", r.Range(2000, 9000)) + "x\n"
	}
	if !straddle && r.Chance(1, 10) { // a control file well beyond 64 KiB, with a field after the long one
		m.ControlText += "X-Very-Long-Field: " + r.Str("abcdefghijklmnopqrstuvwxyz0123456789 ", r.Range(70000, 300000)) + "x\nX-After: " + r.Str("abcdef", 6) + "\n"
	}
	m.ControlFiles = genControlFiles(r, m.ControlText)
	if straddle {
		// exactly [md5sums, ./control] with ./control crossing a 32 KiB multiple of the tar stream
		if len(m.ControlText) < 1100 {
			m.ControlText += "X-Long-Field: " + r.Str("abcdefghijklmnopqrstuvwxyz0123456789 ", r.Range(1500, 6000)) + "x\n"
		}
		j := r.Range(1, (len(m.ControlText)-1)/512)
		L := 32768*r.Pick3(1, 1, 2, 3) - 1024 - 512*j - r.Intn(500)
		var sb strings.Builder
		for sb.Len() < L-70 {
			sb.WriteString(r.Str("0123456789abcdef", 32) + "  usr/share/doc/" + r.Str("abcdefgh", 12) + "\n")
		}
		sb.WriteString(strings.Repeat("#", L-sb.Len()-1) + "\n")
		m.ControlFiles = []tarEnt{{Name: "./md5sums", Type: tar.TypeReg, Data: []byte(sb.String()), Mode: 0o644},
			{Name: "./control", Type: tar.TypeReg, Data: []byte(m.ControlText), Mode: 0o644}}
	}
	m.DataFiles = genDataFiles(r, 256<<10)
	if r.Chance(1, 3) { // packages stamped after January 2038
		m.Timestamp = int64(r.Pick3(1<<31, 4102444800, 99999999999))
	}
	if r.Chance(1, 3) {
		m.Extras = append(m.Extras, model.ArMember{Name: "_gpgorigin", Timestamp: 1, Mode: "100644", Data: r.Bytes(r.Range(1, 300))})
	}
	if r.Chance(1, 4) {
		m.Extras = append(m.Extras, model.ArMember{Name: "_extra", Timestamp: 1, Mode: "100644", Data: r.Bytes(r.Range(0, 30))})
	}
	return m, d, wantSrc
}

type tarListing struct {
	Name string
	Type byte
	Size int64
	Sum  string
	Link string
}

// flakyReaderAt fails the first read that touches [lo,hi) with a non-EOF error, once.
type flakyReaderAt struct {
	in     io.ReaderAt
	lo, hi int64
	failed bool
}

func (f *flakyReaderAt) ReadAt(p []byte, off int64) (int, error) {
	if !f.failed && off < f.hi && off+int64(len(p)) > f.lo {
		f.failed = true
		return 0, errInjectedRead
	}
	return f.in.ReadAt(p, off)
}

func listTar(tr *tar.Reader) ([]tarListing, error) {
	var out []tarListing
	for {
		h, err := tr.Next()
		if err == io.EOF {
			return out, nil
		}
		if err != nil {
			return out, err
		}
		l := tarListing{Name: h.Name, Type: h.Typeflag, Size: h.Size, Link: h.Linkname}
		if h.Typeflag == tar.TypeReg {
			b, err := io.ReadAll(tr)
			if err != nil {
				return out, err
			}
			l.Sum = fmt.Sprintf("%x", digest("sha256", b))
		}
		out = append(out, l)
	}
}

func wantListing(ents []tarEnt) []tarListing {
	var out []tarListing
	for _, e := range ents {
		l := tarListing{Name: e.Name, Type: e.Type, Link: e.Link}
		if e.Type == tar.TypeReg {
			l.Size = int64(len(e.Data))
			l.Sum = fmt.Sprintf("%x", digest("sha256", e.Data))
		}
		out = append(out, l)
	}
	return out
}

// checkLoaded compares one loaded package with the model.
func c14CheckLoaded(c *core.C, what string, d *deb.Deb, members []model.ArMember, m debModel, doc *c10Doc, wantSrc string, ordered bool) {
	compareStruct(c, "Control", d.Control, doc.want, m.ControlText)
	comparePara(c, "deb.Control", d.Control.Paragraph, m.ControlText, 0)
	if d.Control.SourceName() != wantSrc {
		c.Failf("%s: SourceName() = %q, want %q", what, d.Control.SourceName(), wantSrc)
	}
	wantCE, wantDE := strings.TrimPrefix(tarName("control", m.ControlExt), "control."), strings.TrimPrefix(tarName("data", m.DataExt), "data.")
	if strings.TrimPrefix(d.ControlExt, ".") != wantCE || strings.TrimPrefix(d.DataExt, ".") != wantDE {
		c.Failf("%s: ControlExt/DataExt = %q/%q, want %q/%q", what, d.ControlExt, d.DataExt, wantCE, wantDE)
	}
	if d.Data == nil {
		c.Failf("%s: Deb.Data is nil", what)
		return
	}
	got, err := listTar(d.Data)
	if err != nil {
		c.Failf("%s: reading the data tar stream failed: %v", what, err)
	}
	want := wantListing(m.DataFiles)
	if !ordered {
		sort.Slice(got, func(i, j int) bool { return got[i].Name < got[j].Name })
		sort.Slice(want, func(i, j int) bool { return want[i].Name < want[j].Name })
	}
	if fmt.Sprint(got) != fmt.Sprint(want) {
		c.Failf("%s: data tar listing differs from the packaged files:\n got:  %v\n want: %v", what, got, want)
	}
	// ar member index
	if len(d.ArContent) != len(members) {
		c.Failf("%s: ArContent has %d members, the archive has %d (%s)", what, len(d.ArContent), len(members), memberNames(members))
	}
	for _, mm := range members {
		e, ok := d.ArContent[mm.Name]
		if !ok || e == nil {
			c.Failf("%s: ArContent lacks member %q", what, mm.Name)
			continue
		}
		if e.Size != int64(len(mm.Data)) {
			c.Failf("%s: ArContent[%q].Size = %d, want %d", what, mm.Name, e.Size, len(mm.Data))
		}
		// IsTarfile / Tarfile on every member of the index
		wantTar := strings.HasSuffix(mm.Name, ".tar") || strings.Contains(mm.Name, ".tar.")
		if e.IsTarfile() != wantTar {
			c.Failf("%s: ArContent[%q].IsTarfile() = %v", what, mm.Name, e.IsTarfile())
		}
		if !wantTar {
			if _, _, err := e.Tarfile(); err == nil {
				c.Failf("%s: ArContent[%q].Tarfile() succeeded on a member that is not a tarball", what, mm.Name)
			}
		} else if strings.HasPrefix(mm.Name, "control.") {
			e.Data.Seek(0, 0)
			if tr, cl, err := e.Tarfile(); err != nil {
				c.Failf("%s: ArContent[%q].Tarfile(): %v", what, mm.Name, err)
			} else {
				got, lerr := listTar(tr)
				if want := wantListing(m.ControlFiles); lerr != nil || fmt.Sprint(got) != fmt.Sprint(want) {
					c.Failf("%s: the control tarball opened through ArContent lists %v (err %v), packaged %v", what, got, lerr, want)
				}
				cl.Close()
			}
		}
		e.Data.Seek(0, 0)
		b, err := io.ReadAll(e.Data)
		if err != nil || !bytes.Equal(b, mm.Data) {
			c.Failf("%s: ArContent[%q] delivers %d bytes (err %v), the member has %d", what, mm.Name, len(b), err, len(mm.Data))
		}
	}
	if err := d.Close(); err != nil {
		c.Failf("%s: Close() = %v", what, err)
	}
}

func (p c14) run(c *core.C, t *core.T, cs c14Case) {
	r := core.NewRand(cs.Seed, "c14")
	if strings.HasPrefix(cs.Variant, "dpkg-deb:") {
		p.dpkgDeb(c, t, r, strings.TrimPrefix(cs.Variant, "dpkg-deb:"))
		return
	}
	m, doc, wantSrc := genDebModelX(r, cs.CExt, cs.DExt, cs.Variant == "ok" && cs.Straddle)
	if cs.Straddle {
		c.Cover("control:straddles-32KiB")
	}
	switch {
	case strings.HasPrefix(cs.Variant, "version:"):
		m.Binary = strings.TrimPrefix(cs.Variant, "version:") + "\n"
	case strings.HasPrefix(cs.Variant, "control-tar:"):
		// a well-formed control tarball that holds no control file: only the other maintainer files, nothing at all,
		// or a directory of that name
		var keep []tarEnt
		for _, e := range m.ControlFiles {
			if e.Type == tar.TypeReg && (e.Name == "./control" || e.Name == "control") {
				continue
			}
			keep = append(keep, e)
		}
		switch cs.Variant {
		case "control-tar:empty":
			keep = nil
		case "control-tar:control-is-a-directory":
			keep = append(keep, tarEnt{Name: "./control/", Type: tar.TypeDir, Mode: 0o755})
		}
		m.ControlFiles = keep
	}
	members, err := m.members()
	if err != nil {
		c.Cover("~producer-failed")
		c.Cover("producer-failed:" + err.Error()[:10])
		return
	}
	if strings.HasPrefix(cs.Variant, "missing:") {
		which := strings.TrimPrefix(cs.Variant, "missing:")
		var keep []model.ArMember
		for _, mm := range members {
			if !strings.HasPrefix(mm.Name, which) {
				keep = append(keep, mm)
			}
		}
		members = keep
	}
	raw := model.WriteAr(members, r.Bool())
	if cs.Variant != "ok" {
		d, err := deb.Load(bytes.NewReader(raw), "x.deb")
		tag := map[string]string{"missing:debian-binary": "no-debian-binary", "missing:control": "no-control", "missing:data": "no-data"}[cs.Variant]
		if strings.HasPrefix(cs.Variant, "version:") {
			tag = "version-" + strings.TrimPrefix(cs.Variant, "version:")
		}
		if strings.HasPrefix(cs.Variant, "control-tar:") {
			tag = cs.Variant
		}
		c.Cover("reject:" + tag)
		c.Nontrivial()
		if err == nil {
			c.Failf("Load accepted a package that must be rejected (%s; members %s): Control.Package=%q", cs.Variant, memberNames(members), d.Control.Package)
		} else if d != nil {
			c.Cover("reject:non-nil-Deb-with-error") // not demanded either way
		}
		// the same through the file entry point: a rejection is an error there too, not "no package and no error"
		path := filepath.Join(t.WorkDir, "c14-reject.deb")
		if os.WriteFile(path, raw, 0o644) == nil {
			fd, closer, ferr := deb.LoadFile(path)
			if ferr == nil {
				if fd == nil {
					c.Failf("LoadFile on a package that must be rejected (%s; members %s) returned neither a package nor an error", cs.Variant, memberNames(members))
				} else {
					c.Failf("LoadFile accepted a package that must be rejected (%s; members %s): Control.Package=%q", cs.Variant, memberNames(members), fd.Control.Package)
				}
			}
			if closer != nil {
				closer()
			}
			os.Remove(path)
			c.Cover("reject:via-LoadFile")
		}
		return
	}
	// Load, repeated
	var first string
	for i := 0; i < 6; i++ {
		var src io.ReaderAt = bytes.NewReader(raw)
		if i%2 == 1 {
			// a source that reports io.EOF together with the last bytes of the input
			src = &core.CountingReaderAt{In: bytes.NewReader(raw), Size: int64(len(raw)), ExactEOF: true}
			if len(raw)%2 == 0 && len(members[len(members)-1].Data)%2 == 0 {
				c.Cover("reader:eof-with-last-member-byte")
			}
		}
		d, err := deb.Load(src, "some/path.deb")
		if err != nil {
			c.Failf("Load failed on a well-formed package (control %s, data %s, members %s): %v", codecName(cs.CExt), codecName(cs.DExt), memberNames(members), err)
			return
		}
		if d.Path != "some/path.deb" {
			c.Failf("Deb.Path = %q", d.Path)
		}
		sig := fmt.Sprintf("%+v|%s|%s", d.Control.Paragraph.Order, d.ControlExt, d.DataExt)
		if i == 0 {
			first = sig
			c14CheckLoaded(c, "Load", d, members, m, doc, wantSrc, true)
		} else {
			if sig != first {
				c.Failf("loading the same bytes twice gave different results: %s vs %s", first, sig)
			}
			d.Close()
		}
	}
	c.Cover("repeat-loads-agree")
	c.Cover("via:Load")
	// an extra member whose name is a standard one without its extension ("data", "control", "debian-binary.old"):
	// whether such a package is loaded or refused is the loader's choice, but it is the same choice every time
	if cs.Seed%4 == 1 {
		dr := core.NewRand(cs.Seed, "bare-name")
		extra := model.ArMember{Name: dr.Pick([]string{"data", "control", "data/", "control/", "data."}), Timestamp: 1, Mode: "100644", Data: []byte("not a tarball\n")}
		at := 1 + dr.Intn(len(members))
		ms := append(append(append([]model.ArMember{}, members[:at]...), extra), members[at:]...)
		raw3 := model.WriteAr(ms, true)
		var firstOutcome string
		for i := 0; i < 16; i++ {
			d, err := deb.Load(bytes.NewReader(raw3), "bare.deb")
			outcome := "refused"
			if err == nil {
				outcome = fmt.Sprintf("loaded %+v|%s|%s", d.Control.Paragraph.Order, d.ControlExt, d.DataExt)
				if l, lerr := listTar(d.Data); lerr != nil {
					outcome += "|payload unreadable"
				} else {
					outcome += fmt.Sprintf("|%d payload entries", len(l))
				}
				d.Close()
			}
			if i == 0 {
				firstOutcome = outcome
			} else if outcome != firstOutcome {
				c.Failf("loading the same bytes (members %s) repeatedly: load 1: %s; load %d: %s", memberNames(ms), firstOutcome, i+1, outcome)
				break
			}
		}
		c.Cover("extra-member-with-a-bare-standard-name")
	}
	// a source whose read of ONE member header fails once with an I/O error: Load must report it, or load the
	// whole package - not hand out an index that silently lacks the members from there on
	for hi, off := range model.HeaderOffsets(members) {
		if hi >= len(members) {
			break
		}
		fl := &flakyReaderAt{in: bytes.NewReader(raw), lo: off, hi: off + 60}
		d, err := deb.Load(fl, "flaky.deb")
		if err == nil {
			if len(d.ArContent) != len(members) {
				c.Failf("Load over a source whose read of member header %d failed once returned no error and an index of %d of %d members (%s)", hi, len(d.ArContent), len(members), memberNames(members))
			}
			d.Close()
		}
		c.Cover("reader:one-header-read-fails-once")
	}
	for _, e := range m.ControlFiles {
		if e.Type == tar.TypeReg && (e.Name == "./control" || e.Name == "control") {
			break
		}
		if strings.HasSuffix(e.Name, "/control") {
			c.Cover("control-tar:nested-control-first")
		}
	}
	if m.Timestamp >= 1<<31 {
		c.Cover("member-mtime>=2^31")
	}
	if cs.CExt == "xz" || cs.DExt == "xz" {
		// the process-wide xz dictionary limit: lowering it and then restoring the default (0) must leave loading intact
		deb.SetXZMaxDict(4096)
		if d, err := deb.Load(bytes.NewReader(raw), "x.deb"); err == nil {
			listTar(d.Data)
			d.Close()
		}
		deb.SetXZMaxDict(0)
		d, err := deb.Load(bytes.NewReader(raw), "x.deb")
		if err != nil {
			c.Failf("after SetXZMaxDict(4096) and SetXZMaxDict(0) (restore the default) a well-formed xz package no longer loads: %v", err)
		} else {
			c14CheckLoaded(c, "Load after SetXZMaxDict(4096);SetXZMaxDict(0)", d, members, m, doc, wantSrc, true)
			c.Cover("xz-dict-limit-lowered-and-restored")
		}
	}
	// two packages open at the same time (same codecs): both loaded before either is read
	twoOpen := func(when, tag string) {
		m2, doc2, wantSrc2 := genDebModel(core.NewRand(cs.Seed, "second"), cs.CExt, cs.DExt)
		members2, err2 := m2.members()
		if err2 == nil {
			raw2 := model.WriteAr(members2, true)
			da, erra := deb.Load(bytes.NewReader(raw), "a.deb")
			db, errb := deb.Load(bytes.NewReader(raw2), "b.deb")
			if erra != nil || errb != nil {
				c.Failf("loading two well-formed packages one after the other%s failed: %v / %v", when, erra, errb)
			} else {
				c14CheckLoaded(c, "first of two open packages"+when, da, members, m, doc, wantSrc, true)
				c14CheckLoaded(c, "second of two open packages"+when, db, members2, m2, doc2, wantSrc2, true)
				c.Cover(tag)
			}
		}
	}
	twoOpen("", "two-packages-open")
	// LoadFile
	path := filepath.Join(t.WorkDir, "c14.deb")
	os.WriteFile(path, raw, 0o644)
	d, closer, err := deb.LoadFile(path)
	if err != nil {
		c.Failf("LoadFile failed on a well-formed package: %v", err)
	} else {
		if d.Path != path {
			c.Failf("LoadFile: Deb.Path = %q, want %q", d.Path, path)
		}
		c14CheckLoaded(c, "LoadFile", d, members, m, doc, wantSrc, true)
		// both handles LoadFile hands out get closed, as callers do (defer closer(); defer d.Close())
		if closer != nil {
			closer()
		}
		d.Close()
		c.Cover("via:LoadFile")
		// ... and right after a package was released through both of its handles, two packages are open again
		twoOpen(" (right after a package was closed through both handles LoadFile gave out)", "two-packages-open-after-a-double-close")
	}
	// the same file through a symbolic link
	lp := filepath.Join(t.WorkDir, "c14-link.deb")
	os.Remove(lp)
	if os.Symlink(path, lp) == nil {
		d, closer, err := deb.LoadFile(lp)
		if err != nil {
			c.Failf("LoadFile through a symbolic link failed on a well-formed package: %v", err)
		} else {
			c14CheckLoaded(c, "LoadFile(symlink)", d, members, m, doc, wantSrc, true)
			d.Close()
			if closer != nil {
				closer()
			}
			c.Cover("via:LoadFile-symlink")
		}
		os.Remove(lp)
	}
	os.Remove(path)
	c.Cover(fmt.Sprintf("codec:control=%s,data=%s", codecName(cs.CExt), codecName(cs.DExt)))
	for i, e := range m.ControlFiles {
		if strings.HasSuffix(e.Name, "control") && e.Type == tar.TypeReg {
			c.Cover("control-name:" + e.Name)
			first := i == 0 || (i == 1 && m.ControlFiles[0].Type == tar.TypeDir)
			if first {
				c.Cover("control-position:first")
			} else {
				c.Cover("control-position:middle-or-last")
			}
		}
	}
	if len(m.Extras) > 0 {
		c.Cover("extra-members")
	}
	for _, e := range m.ControlFiles {
		if strings.HasSuffix(e.Name, "md5sums") && len(e.Data) > 20000 {
			c.Cover("control:after-large-md5sums")
		}
	}
	for _, e := range m.DataFiles {
		switch {
		case e.Type == tar.TypeSymlink:
			c.Cover("data:symlink")
		case e.Type == tar.TypeDir:
			c.Cover("data:dir")
		case len(e.Data) == 0:
			c.Cover("data:empty-file")
		}
	}
	c.Nontrivial()
}

func (p c14) dpkgDeb(c *core.C, t *core.T, r *core.Rand, comp string) {
	if !have("dpkg-deb") {
		c.Cover("dpkg-deb-missing")
		return
	}
	root := filepath.Join(t.WorkDir, "c14root")
	os.RemoveAll(root)
	defer os.RemoveAll(root)
	os.MkdirAll(filepath.Join(root, "DEBIAN"), 0o755)
	pkg := "vpkg" + r.Str("abcdefghij0123456789", r.Range(2, 8))
	ver := fmt.Sprintf("%d:%d.%d-%d", r.Intn(3), r.Intn(20), r.Intn(20), r.Intn(9)+1)
	arch := r.Pick([]string{"amd64", "all", "i386", "arm64"})
	var deps []string
	for k := r.Range(0, 3); k > 0; k-- {
		d := gen.PkgName(r)
		if strings.ContainsAny(d, "=/_~") {
			d = "libc6"
		}
		if r.Bool() {
			d += fmt.Sprintf(" (%s %d.%d)", r.Pick(gen.Ops), r.Intn(9), r.Intn(9))
		}
		if r.Chance(1, 3) {
			d += " | libfoo"
		}
		deps = append(deps, d)
	}
	ctl := fmt.Sprintf("Package: %s\nVersion: %s\nArchitecture: %s\nMaintainer: Verif Harness <v@example.org>\n", pkg, ver, arch)
	if len(deps) > 0 {
		ctl += "Depends: " + strings.Join(deps, ", ") + "\n"
	}
	ctl += "Section: misc\nPriority: optional\nDescription: a test package\n long line one\n .\n long line two\n"
	os.WriteFile(filepath.Join(root, "DEBIAN", "control"), []byte(ctl), 0o644)
	files := map[string][]byte{}
	os.MkdirAll(filepath.Join(root, "usr", "share", pkg), 0o755)
	for k := r.Range(1, 4); k > 0; k-- {
		name := "usr/share/" + pkg + "/f" + fmt.Sprint(k)
		files["./"+name] = r.Bytes(r.Range(0, 5000))
		os.WriteFile(filepath.Join(root, name), files["./"+name], 0o644)
	}
	out := filepath.Join(t.WorkDir, "c14built.deb")
	defer os.Remove(out)
	cmd := exec.Command("dpkg-deb", "--root-owner-group", "--uniform-compression", "-Z"+comp, "-b", root, out)
	if msg, err := cmd.CombinedOutput(); err != nil {
		c.Cover("dpkg-deb-build-failed")
		c.Cover("~producer-failed")
		_ = msg
		return
	}
	d, closer, err := deb.LoadFile(out)
	if err != nil {
		c.Failf("LoadFile failed on a package built by dpkg-deb -Z%s: %v\ncontrol: %q", comp, err, ctl)
		return
	}
	defer closer()
	if d.Control.Package != pkg || d.Control.Version != libVer(splitText(ver)) || d.Control.Architecture != archVal(arch) || d.Control.Maintainer != "Verif Harness <v@example.org>" ||
		d.Control.Section != "misc" || d.Control.Priority != "optional" {
		c.Failf("dpkg-deb package: Control = %+v, packaged control: %q", d.Control, ctl)
	}
	if !eqLines(model.ValueLines(d.Control.Description), []string{"a test package", "long line one", "", "long line two"}) {
		c.Failf("dpkg-deb package: Description = %q", d.Control.Description)
	}
	if got, want := len(d.Control.Depends.Relations), len(deps); got != want {
		c.Failf("dpkg-deb package: %d Depends relations, packaged %d (%q)", got, want, deps)
	}
	wantExt := map[string]string{"none": "tar", "gzip": "tar.gz", "xz": "tar.xz", "zstd": "tar.zst"}[comp]
	if strings.TrimPrefix(d.ControlExt, ".") != wantExt || strings.TrimPrefix(d.DataExt, ".") != wantExt {
		c.Failf("dpkg-deb -Z%s package: ControlExt/DataExt = %q/%q, want %q", comp, d.ControlExt, d.DataExt, wantExt)
	}
	listing, err := listTar(d.Data)
	if err != nil {
		c.Failf("dpkg-deb package: data tar: %v", err)
	}
	seen := 0
	for _, l := range listing {
		if l.Type == tar.TypeReg {
			w, ok := files[l.Name]
			if !ok || l.Sum != fmt.Sprintf("%x", digest("sha256", w)) || l.Size != int64(len(w)) {
				c.Failf("dpkg-deb package: data file %q (size %d) does not match what was packaged", l.Name, l.Size)
			}
			seen++
		}
	}
	if seen != len(files) {
		c.Failf("dpkg-deb package: data stream lists %d regular files, %d were packaged", seen, len(files))
	}
	for _, n := range []string{"debian-binary", "control." + wantExt, "data." + wantExt} {
		if _, ok := d.ArContent[n]; !ok {
			c.Failf("dpkg-deb package: ArContent lacks %q", n)
		}
	}
	c.Cover("dpkg-deb:-Z" + comp)
	c.Nontrivial()
}

func (p c14) RunBatch(t *core.T, b core.Batch) {
	r := t.Rand(b.Name, fmt.Sprint(b.Arg))
	emit := func(cs c14Case) {
		in, _ := json.Marshal(cs)
		t.Case("deb", in, func(c *core.C) { p.run(c, t, cs) })
	}
	switch b.Name {
	case "matrix":
		for cell := b.Arg * 3; cell < b.Arg*3+3; cell++ {
			for i := 0; i < b.N; i++ {
				emit(c14Case{Seed: r.U64(), CExt: debCodecs[cell/6], DExt: debCodecs[cell%6], Variant: "ok"})
			}
		}
	case "random":
		for i := 0; i < b.N; i++ {
			emit(c14Case{Seed: r.U64(), CExt: r.Pick([]string{"", "gz", "gz", "zst", "lzma"}), DExt: r.Pick([]string{"", "gz", "zst", "lzma"}), Variant: "ok"})
		}
	case "straddle":
		for i := 0; i < b.N; i++ {
			emit(c14Case{Seed: r.U64(), CExt: r.Pick([]string{"gz", "gz", "", "zst", "lzma"}), DExt: "", Variant: "ok", Straddle: true})
		}
	case "reject":
		vs := []string{"version:1.0", "version:3.0", "version:0.93", "version:20.0", "version:21.5", "version:200.0", "version:12.0", "version:22", "missing:debian-binary", "missing:control", "missing:data", "control-tar:no-control-file", "control-tar:empty", "control-tar:control-is-a-directory"}
		for i := 0; i < b.N; i++ {
			emit(c14Case{Seed: r.U64(), CExt: r.Pick([]string{"", "gz"}), DExt: r.Pick([]string{"", "gz"}), Variant: vs[(i+b.Arg)%len(vs)]})
		}
	case "dpkgdeb":
		comps := []string{"none", "gzip", "xz", "zstd"}
		for i := 0; i < b.N; i++ {
			emit(c14Case{Seed: r.U64(), Variant: "dpkg-deb:" + comps[(b.Arg+i)%4]})
		}
	}
}

func (p c14) RunCase(t *core.T, kind string, input []byte) {
	var cs c14Case
	if json.Unmarshal(input, &cs) == nil {
		t.Case(kind, input, func(c *core.C) { p.run(c, t, cs) })
	}
}
