package props

import (
	"bufio"
	"encoding/json"
	"fmt"
	"strings"

	"pault.ag/go/debian/control"
	"pault.ag/go/debian/dependency"

	"verif/internal/core"
	"verif/internal/gen"
	"verif/internal/model"
)

// C19 — build ordering respects build-dependencies.
type c19 struct{}

func init() { core.Register(c19{}) }

func (c19) ID() string    { return "C19" }
func (c19) Level() string { return "exploration" }
func (c19) Rule() string {
	return "random build-dependency graphs over 1..12 sources with 1..4 uniquely named binaries each; build-dependencies spread over Build-Depends, Build-Depends-Arch and Build-Depends-Indep with alternatives, [arch]/[!arch]/wildcard lists, substvars, version constraints and external packages. Acyclic graphs are built along a hidden order; inactive constraints (later alternatives, relations excluded for the build architecture, substvars) deliberately point backwards. Cyclic graphs add an effective back edge or a self-dependency. Everything is rendered as multi-binary .dsc text (folded Binary and Build-Depends fields), parsed with ParseDsc and ordered with OrderDSCForBuild for one of 4 architectures. Model effective edge: per relation the first non-substvar alternative whose list admits the architecture, if it names a binary of another given source. Checked: permutation of the input, every effective edge respected, error iff the model graph is cyclic, three runs agree. Non-trivial = graph with >= 1 effective edge; distinct by hash."
}
func (c19) Assumptions() []string {
	return []string{"any topological order of the model's effective edges is accepted", "source names and binary names are unique within a case"}
}

func (c19) Batches(tier string, seed uint64) []core.Batch {
	return append(spread("graph", 16, tierN(tier, 700, 4000)), conc(tierN(tier, 40, 300), "graph")...)
}

func (c19) Mandatory(tier string) []string {
	return []string{"graph:acyclic", "graph:cyclic", "graph:self-loop", "edge:effective", "edge:inactive-later-alternative", "edge:inactive-arch-excluded", "edge:inactive-substvar-first",
		"edge:target-not-first-binary", "edge:via-Build-Depends", "edge:via-Build-Depends-Arch", "edge:via-Build-Depends-Indep", "outcome:order", "outcome:error", "folded-binary-field", "several-architectures-on-the-same-parsed-sources", "spacing:compact", "names:hyphen-ambiguous-vocabulary", "line>=4096-bytes", "qualifier:native", "qualifier:any"}
}

type c19Src struct {
	Name     string        `json:"name"`
	Binaries []string      `json:"bins"`
	Fields   [3]model.MDep `json:"deps"` // Build-Depends, -Arch, -Indep
}

type c19Case struct {
	Sources []c19Src `json:"sources"` // in input order
	Arch    string   `json:"arch"`
	Fold    bool     `json:"fold"`
	Compact bool     `json:"compact,omitempty"` // no blanks except where the grammar needs one: "libfoo-dev[linux-any](>=1)|x"
}

var c19Fields = []string{"Build-Depends", "Build-Depends-Arch", "Build-Depends-Indep"}

// effective edges of the model: map target source -> set of prerequisite sources
func c19Edges(cs c19Case, cov func(string)) map[string]map[string]bool {
	owner := map[string]string{}
	first := map[string]bool{}
	for _, s := range cs.Sources {
		for i, b := range s.Binaries {
			owner[b] = s.Name
			if i == 0 {
				first[b] = true
			}
		}
	}
	am, _ := model.DenoteArch(cs.Arch)
	edges := map[string]map[string]bool{}
	for _, s := range cs.Sources {
		for fi, dep := range s.Fields {
			for _, rel := range dep {
				chosen := -1
				for pi, alt := range rel {
					if alt.Substvar {
						if pi == 0 && cov != nil {
							cov("edge:inactive-substvar-first")
						}
						continue
					}
					var ml []model.MArch
					for _, n := range alt.Archs {
						m, _ := model.DenoteArch(n)
						ml = append(ml, m)
					}
					if model.SetAdmits(ml, alt.ArchNot, am) {
						chosen = pi
						break
					}
					if _, internal := owner[alt.Name]; internal && cov != nil {
						cov("edge:inactive-arch-excluded")
					}
				}
				if chosen < 0 {
					continue
				}
				for _, alt := range rel[chosen+1:] {
					if _, internal := owner[alt.Name]; internal && cov != nil {
						cov("edge:inactive-later-alternative")
					}
				}
				if o, ok := owner[rel[chosen].Name]; ok {
					if edges[s.Name] == nil {
						edges[s.Name] = map[string]bool{}
					}
					edges[s.Name][o] = true
					if cov != nil {
						cov("edge:effective")
						cov("edge:via-" + c19Fields[fi])
						if !first[rel[chosen].Name] {
							cov("edge:target-not-first-binary")
						}
					}
				}
			}
		}
	}
	return edges
}

func c19Cyclic(cs c19Case, edges map[string]map[string]bool) bool {
	state := map[string]int{}
	var visit func(n string) bool
	visit = func(n string) bool {
		switch state[n] {
		case 1:
			return true
		case 2:
			return false
		}
		state[n] = 1
		for p := range edges[n] {
			if visit(p) {
				return true
			}
		}
		state[n] = 2
		return false
	}
	for _, s := range cs.Sources {
		if visit(s.Name) {
			return true
		}
	}
	return false
}

func (cs c19Case) dscText(s c19Src) string {
	var sb strings.Builder
	sb.WriteString("Format: 3.0 (quilt)\nSource: " + s.Name + "\n")
	if cs.Fold && len(s.Binaries) > 1 {
		sb.WriteString("Binary: " + s.Binaries[0] + ",\n " + strings.Join(s.Binaries[1:], ",\n ") + "\n")
	} else {
		sb.WriteString("Binary: " + strings.Join(s.Binaries, ", ") + "\n")
	}
	// (what the source builds for says nothing about which of its build-dependency fields count)
	sb.WriteString("Architecture: " + []string{"any all", "any", "all", "amd64 i386", "linux-any", "any all"}[len(s.Name)%6] + "\nVersion: 1.0-1\nMaintainer: A <a@example.org>\n")
	for i, dep := range s.Fields {
		if len(dep) == 0 {
			continue
		}
		text := dep.Render(func(slot string) string {
			if slot == model.SlAfterComma && cs.Fold {
				return "\n"
			}
			if cs.Compact {
				if slot == model.SlArchArch || slot == model.SlProfProf {
					return " "
				}
				return ""
			}
			return model.Canonical(slot)
		}, false)
		lines := strings.Split(text, "\n")
		sb.WriteString(c19Fields[i] + ": " + lines[0] + "\n")
		for _, l := range lines[1:] {
			sb.WriteString(" " + l + "\n")
		}
	}
	sb.WriteString("Files:\n d41d8cd98f00b204e9800998ecf8427e 0 " + s.Name + "_1.0.orig.tar.gz\n")
	return sb.String()
}

func (p c19) run(c *core.C, cs c19Case) {
	var dscs []control.DSC
	for _, s := range cs.Sources {
		text := cs.dscText(s)
		d, err := control.ParseDsc(bufio.NewReader(strings.NewReader(text)), "/x/"+s.Name+".dsc")
		if err != nil {
			c.Failf("ParseDsc failed on generated .dsc: %v\n%q", err, text)
			return
		}
		dscs = append(dscs, *d)
	}
	if cs.Fold {
		c.Cover("folded-binary-field")
	}
	if cs.Compact {
		c.Cover("spacing:compact")
	}
	for _, s := range cs.Sources {
		if !strings.HasPrefix(s.Name, "src") {
			c.Cover("names:hyphen-ambiguous-vocabulary")
		}
		for _, dep := range s.Fields {
			if len(dep) >= 260 && !cs.Fold {
				c.Cover("line>=4096-bytes")
			}
			for _, rel := range dep {
				for _, alt := range rel {
					if alt.Qual != "" {
						c.Cover("qualifier:" + alt.Qual)
					}
				}
			}
		}
	}
	// the same parsed DSCs are first ordered for two OTHER architectures: ordering must not
	// modify its input, so the result for cs.Arch afterwards must still obey the model
	for _, other := range c19Archs {
		if other != cs.Arch {
			oa, _ := dependency.ParseArch(other)
			oc := cs
			oc.Arch = other
			oe := c19Edges(oc, nil)
			out, err := control.OrderDSCForBuild(append([]control.DSC{}, dscs...), *oa)
			if cyc := c19Cyclic(oc, oe); (err != nil) != cyc {
				c.Failf("OrderDSCForBuild for %s (asked before %s on the same parsed sources): error=%v, the model graph cyclic=%v\nsources: %s", other, cs.Arch, err, cyc, describe(oc))
			} else if err == nil {
				pos := map[string]int{}
				for i, d := range out {
					pos[d.Source] = i
				}
				for s, ps := range oe {
					for pre := range ps {
						if pos[pre] >= pos[s] {
							c.Failf("for %s: %q must come after %q: order %v", other, s, pre, pos)
						}
					}
				}
			}
			c.Cover("several-architectures-on-the-same-parsed-sources")
		}
	}
	arch, _ := dependency.ParseArch(cs.Arch)
	edges := c19Edges(cs, c.Cover)
	cyclic := c19Cyclic(cs, edges)
	nEdges := 0
	for s, ps := range edges {
		nEdges += len(ps)
		if ps[s] {
			c.Cover("graph:self-loop")
		}
	}
	if cyclic {
		c.Cover("graph:cyclic")
	} else {
		c.Cover("graph:acyclic")
	}
	var firstOrder []string
	var firstErr bool
	for run := 0; run < 3; run++ {
		in := append([]control.DSC{}, dscs...)
		out, err := control.OrderDSCForBuild(in, *arch)
		var order []string
		for _, d := range out {
			order = append(order, d.Source)
		}
		if run == 0 {
			firstOrder, firstErr = order, err != nil
		} else if (err != nil) != firstErr || !eqLines(order, firstOrder) {
			c.Failf("OrderDSCForBuild gave different outcomes on the same input: %v (err %v) vs %v (err %v)", firstOrder, firstErr, order, err != nil)
			return
		}
		if err != nil {
			c.Cover("outcome:error")
			if !cyclic {
				c.Failf("OrderDSCForBuild failed on an acyclic graph: %v\nsources: %s", err, describe(cs))
				return
			}
			if len(out) != 0 {
				c.Cover("outcome:error-with-partial-result") // the outcome IS the error; what accompanies it is not specified
			}
			continue
		}
		c.Cover("outcome:order")
		if cyclic {
			c.Failf("OrderDSCForBuild returned an order %v although the build-dependencies form a cycle\nsources: %s", order, describe(cs))
			return
		}
		pos := map[string]int{}
		for i, n := range order {
			if _, dup := pos[n]; dup {
				c.Failf("order lists %q twice: %v", n, order)
				return
			}
			pos[n] = i
		}
		if len(order) != len(cs.Sources) {
			c.Failf("order has %d sources, the input has %d: %v", len(order), len(cs.Sources), order)
			return
		}
		for _, s := range cs.Sources {
			if _, ok := pos[s.Name]; !ok {
				c.Failf("source %q missing from the order %v", s.Name, order)
				return
			}
		}
		for s, ps := range edges {
			for pre := range ps {
				if pos[pre] >= pos[s] {
					c.Failf("%q build-depends (for %s) on a binary of %q but is ordered before it: %v\nsources: %s", s, cs.Arch, pre, order, describe(cs))
					return
				}
			}
		}
	}
	if nEdges > 0 {
		c.Nontrivial()
	}
}

func describe(cs c19Case) string {
	var sb strings.Builder
	for _, s := range cs.Sources {
		sb.WriteString(fmt.Sprintf("[%s builds %v;", s.Name, s.Binaries))
		for i, d := range s.Fields {
			if len(d) > 0 {
				sb.WriteString(" " + c19Fields[i] + ": " + d.Render(model.Canonical, false) + ";")
			}
		}
		sb.WriteString("] ")
	}
	s := sb.String()
	if len(s) > 900 {
		s = s[:900] + "…"
	}
	return s
}

var c19Archs = []string{"amd64", "i386", "arm64", "kfreebsd-amd64"}

func (p c19) gen(r *core.Rand) c19Case {
	n := r.Range(1, 12)
	if r.Bool() {
		n = r.Range(2, 6)
	}
	cs := c19Case{Arch: r.Pick(c19Archs), Fold: r.Bool()}
	am, _ := model.DenoteArch(cs.Arch)
	// hidden order = creation order; sources are shuffled afterwards
	srcs := make([]c19Src, n)
	// now and then the source names come from a vocabulary in which joining two names with a hyphen is
	// ambiguous ("qt"+"base-tools" = "qt-base"+"tools")
	vocab := []string{"qt", "qt-base", "base-tools", "tools", "base", "qt-base-tools", "a", "a-b", "b", "b-c", "c", "a-b-c"}
	useVocab := r.Chance(1, 4)
	vperm := r.Perm(len(vocab))
	cs.Compact = r.Chance(1, 4)
	for i := range srcs {
		srcs[i].Name = fmt.Sprintf("src%d-%s", i, r.Str("abcdef", 3))
		if useVocab {
			srcs[i].Name = vocab[vperm[i]]
		}
		for k := r.Range(1, 4); k > 0; k-- {
			srcs[i].Binaries = append(srcs[i].Binaries, fmt.Sprintf("bin%d-%d-%s", i, k, r.Str("xyz", 2)))
		}
	}
	binOf := func(i int) string { return r.Pick(srcs[i].Binaries) }
	admits := func(p model.MPoss) bool {
		var ml []model.MArch
		for _, a := range p.Archs {
			m, _ := model.DenoteArch(a)
			ml = append(ml, m)
		}
		return model.SetAdmits(ml, p.ArchNot, am)
	}
	decorate := func(p model.MPoss, wantAdmit bool) model.MPoss {
		for try := 0; try < 40; try++ {
			q := p
			q.Archs, q.ArchNot = nil, false
			switch r.Intn(4) {
			case 0:
			default:
				q.ArchNot = r.Bool()
				for k := r.Range(1, 3); k > 0; k-- {
					q.Archs = append(q.Archs, r.Pick([]string{"amd64", "i386", "arm64", "linux-any", "kfreebsd-any", "any-amd64", "kfreebsd-amd64", "hurd-any", "armhf"}))
				}
			}
			if r.Chance(1, 3) {
				q.Op, q.Ver = r.Pick(gen.Ops), "1.0"
			}
			q.GroupOrder = ""
			q.Normalise()
			if admits(q) == wantAdmit {
				return q
			}
		}
		p.Archs = nil
		if !wantAdmit {
			p.Archs, p.ArchNot = []string{cs.Arch}, true
		}
		p.GroupOrder = ""
		p.Normalise()
		return p
	}
	external := func() model.MPoss {
		return model.MPoss{Name: r.Pick([]string{"debhelper", "gcc", "libc6-dev", "pkg-config", "python3"})}
	}
	for i := range srcs {
		nrel := r.Range(0, 5)
		for k := 0; k < nrel; k++ {
			var rel model.MRel
			fi := r.Intn(3)
			switch r.Intn(6) {
			case 0, 1: // effective edge to an earlier source (forward in the hidden order)
				if i > 0 {
					if r.Chance(1, 4) {
						rel = append(rel, model.MPoss{Name: "shlibs:Depends", Substvar: true})
					}
					if r.Chance(1, 3) { // an excluded alternative first, pointing backwards (to a later source)
						if i < n-1 {
							rel = append(rel, decorate(model.MPoss{Name: binOf(r.Range(i+1, n-1))}, false))
						}
						if r.Chance(1, 2) { // ... then a substvar in the middle: x [other-arch] | ${v} | real
							rel = append(rel, model.MPoss{Name: "misc:Depends", Substvar: true})
						}
					}
					rel = append(rel, decorate(model.MPoss{Name: binOf(r.Intn(i))}, true))
					if r.Chance(1, 2) && i < n-1 { // later alternative pointing backwards: inactive
						rel = append(rel, decorate(model.MPoss{Name: binOf(r.Range(i+1, n-1))}, true))
					}
				}
			case 2: // external first, internal (backwards) later: inactive
				rel = append(rel, external())
				if i < n-1 {
					rel = append(rel, model.MPoss{Name: binOf(r.Range(i+1, n-1))})
				}
			case 3: // relation excluded for this architecture, pointing backwards
				if i < n-1 {
					rel = append(rel, decorate(model.MPoss{Name: binOf(r.Range(i+1, n-1))}, false))
				}
			default:
				rel = append(rel, decorate(external(), r.Bool()))
			}
			for pi := range rel {
				if !rel[pi].Substvar && r.Chance(1, 6) { // multiarch qualifiers do not restrict anything
					rel[pi].Qual = r.Pick([]string{"native", "any", "amd64", "i386"})
				}
			}
			if len(rel) > 0 {
				srcs[i].Fields[fi] = append(srcs[i].Fields[fi], rel)
			}
		}
	}
	// cyclic variants
	switch r.Intn(5) {
	case 0:
		if n >= 2 { // effective back edge closing a cycle: earliest depends on a later one that depends (transitively or directly) on it
			a := r.Intn(n - 1)
			b := r.Range(a+1, n-1)
			srcs[b].Fields[r.Intn(3)] = append(srcs[b].Fields[r.Intn(3)], model.MRel{model.MPoss{Name: binOf(a)}})
			fi := r.Intn(3)
			srcs[a].Fields[fi] = append(srcs[a].Fields[fi], model.MRel{decorate(model.MPoss{Name: binOf(b)}, true)})
		}
	case 1: // self-dependency
		a := r.Intn(n)
		fi := r.Intn(3)
		srcs[a].Fields[fi] = append(srcs[a].Fields[fi], model.MRel{model.MPoss{Name: binOf(a)}})
	}
	if r.Chance(1, 6) { // a build-dependency line of more than 4096 bytes (the real relations come after the filler)
		i, fi := r.Intn(n), r.Intn(3)
		var filler model.MDep
		for k := 0; k < 260; k++ {
			filler = append(filler, model.MRel{model.MPoss{Name: fmt.Sprintf("libfiller%d-dev", k), Op: ">=", Ver: "1.0"}})
		}
		srcs[i].Fields[fi] = append(filler, srcs[i].Fields[fi]...)
	}
	perm := r.Perm(n)
	for _, i := range perm {
		cs.Sources = append(cs.Sources, srcs[i])
	}
	return cs
}

func (p c19) RunBatch(t *core.T, b core.Batch) {
	if concDispatch(p, t, b) {
		return
	}
	r := t.Rand("graph", fmt.Sprint(b.Arg))
	for i := 0; i < b.N; i++ {
		cs := p.gen(r)
		in, _ := json.Marshal(cs)
		t.Case("graph", in, func(c *core.C) { p.run(c, cs) })
	}
}

func (p c19) RunCase(t *core.T, kind string, input []byte) {
	var cs c19Case
	if json.Unmarshal(input, &cs) == nil {
		t.Case(kind, input, func(c *core.C) { p.run(c, cs) })
	}
}
