package props

import (
	"archive/tar"
	"bytes"
	"compress/gzip"
	"fmt"
	"hash/crc32"
	"os/exec"
	"strings"

	"github.com/kjk/lzma"
	"github.com/klauspost/compress/zstd"

	"verif/internal/core"
	"verif/internal/model"
)

// tarEnt is one entry of a model tar stream.
type tarEnt struct {
	Name string `json:"name"`
	Type byte   `json:"type"` // tar.TypeReg, TypeDir, TypeSymlink
	Data []byte `json:"data,omitempty"`
	Link string `json:"link,omitempty"`
	Mode int64  `json:"mode"`
}

func writeTar(ents []tarEnt) []byte {
	var buf bytes.Buffer
	tw := tar.NewWriter(&buf)
	for _, e := range ents {
		h := &tar.Header{Name: e.Name, Typeflag: e.Type, Mode: e.Mode, Uname: "root", Gname: "root", Format: tar.FormatGNU}
		switch e.Type {
		case tar.TypeReg:
			h.Size = int64(len(e.Data))
		case tar.TypeSymlink:
			h.Linkname = e.Link
		}
		tw.WriteHeader(h)
		if e.Type == tar.TypeReg {
			tw.Write(e.Data)
		}
	}
	tw.Close()
	return buf.Bytes()
}

var debCodecs = []string{"", "gz", "xz", "bz2", "lzma", "zst"}

func runFilter(in []byte, name string, args ...string) ([]byte, error) {
	cmd := exec.Command(name, args...)
	cmd.Stdin = bytes.NewReader(in)
	var out, eb bytes.Buffer
	cmd.Stdout, cmd.Stderr = &out, &eb
	if err := cmd.Run(); err != nil {
		return nil, fmt.Errorf("%s: %v %s", name, err, eb.String())
	}
	return out.Bytes(), nil
}

// compress encodes data for the member extension ext ("" = stored).
func compress(ext string, data []byte) ([]byte, error) {
	switch ext {
	case "":
		return data, nil
	case "gz":
		var buf bytes.Buffer
		w := gzip.NewWriter(&buf)
		w.Write(data)
		w.Close()
		return buf.Bytes(), nil
	case "zst":
		var buf bytes.Buffer
		w, err := zstd.NewWriter(&buf)
		if err != nil {
			return nil, err
		}
		w.Write(data)
		w.Close()
		return buf.Bytes(), nil
	case "lzma":
		var buf bytes.Buffer
		w := lzma.NewWriterSizeLevel(&buf, int64(len(data)), 3)
		w.Write(data)
		w.Close()
		return buf.Bytes(), nil
	case "xz":
		if have("xz") {
			// the dictionary size recorded in the stream is what a decoder has to accept: 1 MiB (-1) mostly,
			// now and then what the higher presets write (-7: 16 MiB, -8: 32 MiB, -9: 64 MiB)
			switch crc32.ChecksumIEEE(data) % 8 {
			case 0:
				return runFilter(data, "xz", "-c", "--lzma2=preset=0,dict=64MiB")
			case 1:
				return runFilter(data, "xz", "-c", "--lzma2=preset=0,dict=16MiB")
			case 2:
				return runFilter(data, "xz", "-c", "--lzma2=preset=0,dict=32MiB")
			}
			return runFilter(data, "xz", "-c", "-1")
		}
		return runFilter(data, "python3", "-c", "import sys,lzma;sys.stdout.buffer.write(lzma.compress(sys.stdin.buffer.read()))")
	case "bz2":
		if have("bzip2") {
			return runFilter(data, "bzip2", "-c", "-1")
		}
		return runFilter(data, "python3", "-c", "import sys,bz2;sys.stdout.buffer.write(bz2.compress(sys.stdin.buffer.read()))")
	}
	return nil, fmt.Errorf("unknown codec %q", ext)
}

func tarName(base, ext string) string {
	if ext == "" {
		return base + ".tar"
	}
	return base + ".tar." + ext
}

// debModel is a format-2.0 package model.
type debModel struct {
	ControlText  string
	ControlFiles []tarEnt // includes the control file itself
	DataFiles    []tarEnt
	ControlExt   string
	DataExt      string
	Extras       []model.ArMember // members after data.tar
	Binary       string           // content of debian-binary
	Timestamp    int64            // mtime of the three standard members (0 = a fixed 2023 date)
}

func genDataFiles(r *core.Rand, maxSize int) []tarEnt {
	ents := []tarEnt{{Name: "./", Type: tar.TypeDir, Mode: 0o755}, {Name: "./usr/", Type: tar.TypeDir, Mode: 0o755}}
	n := r.Range(0, 5)
	for i := 0; i < n; i++ {
		switch r.Intn(5) {
		case 0:
			ents = append(ents, tarEnt{Name: fmt.Sprintf("./usr/dir%d/", i), Type: tar.TypeDir, Mode: 0o755})
		case 1:
			ents = append(ents, tarEnt{Name: fmt.Sprintf("./usr/link%d", i), Type: tar.TypeSymlink, Link: "target" + word(r), Mode: 0o777})
		default:
			size := r.Range(0, 2000)
			if r.Chance(1, 6) {
				size = r.Range(0, maxSize)
			}
			if r.Chance(1, 6) {
				size = 0
			}
			ents = append(ents, tarEnt{Name: fmt.Sprintf("./usr/file%d-%s", i, r.Str("abcxyz0189._+-", r.Range(1, 8))), Type: tar.TypeReg, Data: r.Bytes(size), Mode: 0o644})
		}
	}
	return ents
}

func genControlFiles(r *core.Rand, controlText string) []tarEnt {
	ctl := tarEnt{Name: r.Pick([]string{"./control", "./control", "control"}), Type: tar.TypeReg, Data: []byte(controlText), Mode: 0o644}
	others := []tarEnt{{Name: "./md5sums", Type: tar.TypeReg, Data: []byte("d41d8cd98f00b204e9800998ecf8427e  usr/file\n"), Mode: 0o644},
		{Name: "./postinst", Type: tar.TypeReg, Data: []byte("#!/bin/sh\nexit 0\n"), Mode: 0o755},
		{Name: "./conffiles", Type: tar.TypeReg, Data: []byte("/etc/foo.conf\n"), Mode: 0o644}}
	if r.Chance(1, 3) { // a large md5sums in front pushes ./control across decompressor block boundaries
		var sb strings.Builder
		target := r.Pick3(20000, 40000, 66000, 131000)
		if r.Bool() { // aligned so that ./control (one 512-byte tar block or more) straddles a 32 KiB multiple
			target = 32768*r.Pick3(1, 2, 3, 4) - 1536 - r.Intn(400)
		}
		for sb.Len() < target-47 {
			sb.WriteString(r.Str("0123456789abcdef", 32) + "  usr/share/doc/" + r.Str("abcdefgh", 12) + "\n")
		}
		others[0].Data = []byte(sb.String())
	}
	others = others[:r.Range(0, 3)]
	if r.Chance(1, 2) {
		// near-miss names: only the top-level file named exactly "control" is the control file
		decoy := []byte("Package: decoy\nVersion: 6.6.6\nArchitecture: all\nDescription: not the control file\n")
		near := [][]tarEnt{
			{{Name: "./conf.d/", Type: tar.TypeDir, Mode: 0o755}, {Name: "./conf.d/control", Type: tar.TypeReg, Data: decoy, Mode: 0o644}},
			{{Name: "./control.bak", Type: tar.TypeReg, Data: decoy, Mode: 0o644}},
			{{Name: "./xcontrol", Type: tar.TypeReg, Data: decoy, Mode: 0o644}},
			{{Name: "./controls", Type: tar.TypeReg, Data: decoy, Mode: 0o644}},
			{{Name: "./a/", Type: tar.TypeDir, Mode: 0o755}, {Name: "./a/b/", Type: tar.TypeDir, Mode: 0o755}, {Name: "./a/b/control", Type: tar.TypeReg, Data: decoy, Mode: 0o644}},
		}
		others = append(near[r.Intn(len(near))], others...)
	}
	pos := r.Range(0, len(others))
	var out []tarEnt
	if r.Bool() {
		out = append(out, tarEnt{Name: "./", Type: tar.TypeDir, Mode: 0o755})
	}
	out = append(out, others[:pos]...)
	out = append(out, ctl)
	out = append(out, others[pos:]...)
	return out
}

// members renders the model into ar members (compressing the tars).
func (m debModel) members() ([]model.ArMember, error) {
	ct, err := compress(m.ControlExt, writeTar(m.ControlFiles))
	if err != nil {
		return nil, err
	}
	dt, err := compress(m.DataExt, writeTar(m.DataFiles))
	if err != nil {
		return nil, err
	}
	ts := m.Timestamp
	if ts == 0 {
		ts = 1700000000
	}
	ms := []model.ArMember{
		{Name: "debian-binary", Timestamp: ts, Mode: "100644", Data: []byte(m.Binary)},
		{Name: tarName("control", m.ControlExt), Timestamp: ts, Mode: "100644", Data: ct},
		{Name: tarName("data", m.DataExt), Timestamp: ts, Mode: "100644", Data: dt},
	}
	return append(ms, m.Extras...), nil
}

func memberNames(ms []model.ArMember) string {
	var n []string
	for _, m := range ms {
		n = append(n, m.Name)
	}
	return strings.Join(n, ",")
}
