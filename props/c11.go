package props

import (
	"bytes"
	"crypto"
	"encoding/json"
	"fmt"
	"io"
	"os"
	"path/filepath"
	"sort"
	"strings"
	"testing/iotest"

	"golang.org/x/crypto/openpgp"
	"golang.org/x/crypto/openpgp/clearsign"
	"golang.org/x/crypto/openpgp/packet"
	"pault.ag/go/debian/control"

	"verif/internal/core"
	"verif/internal/gen"
	"verif/internal/model"
)

// C11 — clearsigned control data needs a valid keyring signature.
type c11 struct{}

func init() { core.Register(c11{}) }

func (c11) ID() string    { return "C11" }
func (c11) Level() string { return "fault_enumeration" }
func (c11) Rule() string {
	return "documents from the deb822 generator are clearsigned by one of three generated keys and read with a keyring through NewParagraphReader+All+Signer and NewDecoder+Decode+Signer. Faults, per signed document: at every byte offset {xor 0x01, xor 0x20, ->'X', ->newline, deletion, insertion of 'A', ' ', newline} and truncation at every offset; splices: foreign paragraph before the armor (with/without blank line), foreign field inside the signed text, unsigned text between text and signature, text after END PGP SIGNATURE, a second block signed by a foreign key before/after, duplicated signature block, altered Hash header; keyrings {signer}, {signer+others}, {others}, empty list, pointer to a nil list. Oracle (differential): harness-side clearsign.Decode + CheckDetachedSignature on the same bytes and keyring, then the reference deb822 reader on the verified bytes. Library success requires reference success, identical paragraphs and the verifying key as Signer; the untampered document must be accepted; input that does not start with the armor must never report a signer. Non-trivial = every fault case; distinct by hash of the input bytes + keyring."
}
func (c11) Assumptions() []string {
	return []string{"golang.org/x/crypto/openpgp and clearsign primitives (the library's use of them is what is checked)", "behaviour with a nil keyring pointer is the documented bypass and not checked"}
}

func (c11) Batches(tier string, seed uint64) []core.Batch {
	var b []core.Batch
	b = append(b, spread("edit", 16, tierN(tier, 2, 20))...)
	b = append(b, spread("splice", 2, tierN(tier, 10, 100))...)
	b = append(b, spread("keyring", 2, tierN(tier, 10, 100))...)
	b = append(b, spread("corpus", 4, 0)...) // the archive's own clearsigned InRelease files and keyrings, if installed
	return b
}

func (c11) Mandatory(tier string) []string {
	return []string{"region:armor-header", "region:hash-header", "region:body", "region:signature-armor", "region:trailer", "edit:substitute", "edit:delete", "edit:insert", "edit:truncate",
		"outcome:both-reject", "outcome:both-accept-equal", "untampered-accepted", "splice:foreign-before", "splice:foreign-before-blank", "splice:field-inside", "splice:text-before-signature",
		"splice:text-after-end", "splice:foreign-block-before", "splice:foreign-block-after", "splice:duplicate-signature", "splice:hash-header", "keyring:signer", "keyring:signer+others",
		"keyring:others", "keyring:empty", "keyring:nil-list", "entry:ParagraphReader", "entry:Decoder", "sequence:keyring-mutated-between-reads", "unsigned:no-signer", "source:onebyte", "source:chunk7", "source:chunk14", "source:data+EOF", "source:os.Pipe", "doc:signed-bytes-are-not-utf8", "doc:signed-line>=64KiB", "doc:crlf-line-ends-throughout"}
}

type c11Case struct {
	Input   []byte `json:"input"`
	Keyring []byte `json:"keyring"`
	NilList bool   `json:"nillist,omitempty"` // pointer to a nil EntityList
	Fault   string `json:"fault"`
}

func clearsignDoc(text string, key *openpgp.Entity) []byte {
	var buf bytes.Buffer
	w, err := clearsign.Encode(&buf, key.PrivateKey, &packet.Config{DefaultHash: crypto.SHA256})
	if err != nil {
		panic(err)
	}
	io.WriteString(w, text)
	w.Close()
	buf.WriteString("\n")
	return buf.Bytes()
}

// reference: independent decode + verify + model read.
func c11Reference(input []byte, keyring openpgp.EntityList) (ok bool, paras []model.RefPara, keyID uint64, why string) {
	block, _ := clearsign.Decode(input)
	if block == nil {
		return false, nil, 0, "no clearsigned block"
	}
	e, err := openpgp.CheckDetachedSignature(keyring, bytes.NewReader(block.Bytes), block.ArmoredSignature.Body)
	if err != nil || e == nil {
		return false, nil, 0, fmt.Sprint(err)
	}
	ps, pok := model.RefRead(string(block.Bytes))
	if !pok {
		return true, nil, e.PrimaryKey.KeyId, "verified bytes are not well-formed deb822"
	}
	return true, ps, e.PrimaryKey.KeyId, ""
}

func (p c11) run(c *core.C, cs c11Case) {
	var keyring openpgp.EntityList
	if !cs.NilList {
		keyring = parseKeyring(cs.Keyring)
	}
	armored := bytes.HasPrefix(cs.Input, []byte("-----BEGIN PGP "))
	refOK, refParas, refID, why := c11Reference(cs.Input, keyring)
	type result struct {
		ok     bool
		paras  []control.Paragraph
		signer *openpgp.Entity
		err    error
	}
	// how the bytes arrive varies from case to case: all at once, in pieces of 1, 7 or 14 bytes (shorter than the
	// armor header line), with the last bytes together with io.EOF, or through the read end of a pipe (an *os.File
	// whose Stat().Size() is 0)
	srcKind := []string{"bytes.Reader", "bytes.Reader", "onebyte", "chunk7", "chunk14", "data+EOF", "os.Pipe"}[(len(cs.Input)+len(cs.Fault))%7]
	var closers []io.Closer
	defer func() {
		for _, cl := range closers {
			cl.Close()
		}
	}()
	source := func() io.Reader {
		switch srcKind {
		case "onebyte":
			return iotest.OneByteReader(bytes.NewReader(cs.Input))
		case "chunk7":
			return &fixedChunkReader{b: cs.Input, n: 7}
		case "chunk14":
			return &fixedChunkReader{b: cs.Input, n: 14}
		case "data+EOF":
			return iotest.DataErrReader(bytes.NewReader(cs.Input))
		case "os.Pipe":
			if len(cs.Input) <= 60000 { // fits the pipe buffer: no writer goroutine needed
				if rd, wr, err := os.Pipe(); err == nil {
					wr.Write(cs.Input)
					wr.Close()
					closers = append(closers, rd)
					return rd
				}
			}
		}
		return bytes.NewReader(cs.Input)
	}
	c.Cover("source:" + srcKind)
	readers := map[string]func() result{
		"ParagraphReader": func() result {
			pr, err := control.NewParagraphReader(source(), &keyring)
			if err != nil {
				return result{err: err}
			}
			ps, err := pr.All()
			return result{ok: err == nil, paras: ps, signer: pr.Signer(), err: err}
		},
		"Decoder": func() result {
			dec, err := control.NewDecoder(source(), &keyring)
			if err != nil {
				return result{err: err}
			}
			var ps []pWrap
			err = dec.Decode(&ps)
			out := make([]control.Paragraph, len(ps))
			for i := range ps {
				out[i] = ps[i].Paragraph
			}
			return result{ok: err == nil, paras: out, signer: dec.Signer(), err: err}
		},
	}
	for name, fn := range readers {
		res := fn()
		c.Cover("entry:" + name)
		if !armored {
			// treated as unsigned input: never a signer
			if res.signer != nil {
				// fine only if what was verified is a clearsigned block that follows nothing but white space (a reader may
				// skip a BOM or blank lines in front of the armor) and the signer is the one who signed it
				j := bytes.Index(cs.Input, []byte("-----BEGIN PGP SIGNED MESSAGE-----"))
				lead := ""
				if j >= 0 {
					lead = strings.TrimSpace(strings.TrimPrefix(string(cs.Input[:j]), "\xef\xbb\xbf"))
				}
				ok2, paras2, id2 := false, []model.RefPara(nil), uint64(0)
				if j >= 0 && lead == "" {
					ok2, paras2, id2, _ = c11Reference(cs.Input[j:], keyring)
				}
				if !ok2 || res.signer.PrimaryKey.KeyId != id2 || (res.ok && paras2 != nil && diffParas(res.paras, paras2) != "") {
					c.Failf("%s reports a signer for input that does not start with the OpenPGP armor and is not a verifiable clearsigned block behind white space (fault %s)", name, cs.Fault)
				}
				c.Cover("unsigned:armor-behind-white-space-verified")
			} else {
				c.Cover("unsigned:no-signer")
			}
			// a clearsigned block with foreign text in front of it: whatever the reader makes of that, what it hands
			// out with a keyring supplied may only be the verified signed text - never the foreign text, never
			// the block's text unverified
			if i := bytes.Index(cs.Input, []byte("\n-----BEGIN PGP SIGNED MESSAGE-----")); i >= 0 && res.ok && len(res.paras) > 0 {
				ok2, paras2, _, _ := c11Reference(cs.Input[i+1:], keyring)
				if !ok2 || paras2 == nil || diffParas(res.paras, paras2) != "" {
					c.Failf("%s accepted input that has foreign text in front of a clearsigned block and returned %d paragraph(s) that are not the verified signed text (fault %s)", name, len(res.paras), cs.Fault)
				}
				c.Cover("unsigned:armor-not-at-start-accepted")
			}
			continue
		}
		switch {
		case res.ok && !refOK:
			c.Failf("%s accepted the input (signer %v, %d paragraphs) although an independent decode+verify of the same bytes fails (%s); fault: %s", name, res.signer != nil, len(res.paras), why, cs.Fault)
		case res.ok && refOK:
			if res.signer == nil {
				c.Failf("%s accepted a verified document but reports no signer (fault %s)", name, cs.Fault)
			} else if res.signer.PrimaryKey.KeyId != refID {
				c.Failf("%s reports signer key %X, the signature verifies against %X", name, res.signer.PrimaryKey.KeyId, refID)
			}
			if refParas != nil {
				if diff := diffParas(res.paras, refParas); diff != "" {
					c.Failf("%s returned paragraphs that differ from the signed text: %s (fault %s)", name, diff, cs.Fault)
				}
			}
			c.Cover("outcome:both-accept-equal")
		case !res.ok && refOK:
			if res.signer != nil && res.err == nil {
				c.Failf("%s: inconsistent result", name)
			}
			if cs.Fault == "none" && refParas != nil {
				c.Failf("%s rejected an untampered document signed by a keyring key: %v", name, res.err)
			}
			c.Cover("outcome:library-rejects-only")
		default:
			c.Cover("outcome:both-reject")
		}
		if cs.Fault == "none" && res.ok {
			c.Cover("untampered-accepted")
		}
	}
	// the same keyring VARIABLE, emptied / replaced in place after a successful read:
	// the second read of the same bytes must be judged against the new content
	if cs.Fault == "none" && refOK && armored && len(keyring) > 0 {
		open := map[string]func(kr *openpgp.EntityList) (*openpgp.Entity, error){
			"NewParagraphReader": func(kr *openpgp.EntityList) (*openpgp.Entity, error) {
				pr, err := control.NewParagraphReader(bytes.NewReader(cs.Input), kr)
				if err != nil {
					return nil, err
				}
				if _, err := pr.All(); err != nil {
					return nil, err
				}
				return pr.Signer(), nil
			},
			"NewDecoder": func(kr *openpgp.EntityList) (*openpgp.Entity, error) {
				dec, err := control.NewDecoder(bytes.NewReader(cs.Input), kr)
				if err != nil {
					return nil, err
				}
				var ps []pWrap
				if err := dec.Decode(&ps); err != nil {
					return nil, err
				}
				return dec.Signer(), nil
			},
		}
		for name, fn := range open {
			kr := append(openpgp.EntityList{}, keyring...)
			signer, err := fn(&kr)
			if err != nil || signer == nil {
				continue
			}
			others := testKeys(1024)
			for i := range kr {
				kr[i] = others[2] // Mallory, never a signer in these cases
			}
			if refID == others[2].PrimaryKey.KeyId {
				continue
			}
			if s2, err2 := fn(&kr); err2 == nil {
				c.Failf("%s: after the keyring variable was overwritten in place with an unrelated key, the same document is still accepted (signer reported: %v)", name, s2 != nil)
			}
			kr = kr[:0]
			if _, err3 := fn(&kr); err3 == nil {
				c.Failf("%s: after the keyring variable was emptied in place, the same document is still accepted", name)
			}
			c.Cover("sequence:keyring-mutated-between-reads")
		}
	}
	c.Nontrivial()
}

// fixedChunkReader hands the input out n bytes at a time.
type fixedChunkReader struct {
	b []byte
	n int
}

func (f *fixedChunkReader) Read(p []byte) (int, error) {
	if len(f.b) == 0 {
		return 0, io.EOF
	}
	k := min(f.n, min(len(p), len(f.b)))
	copy(p, f.b[:k])
	f.b = f.b[k:]
	return k, nil
}

func (p c11) emit(t *core.T, cs c11Case, tags ...string) {
	in, _ := json.Marshal(cs)
	t.Case("signed", in, func(c *core.C) {
		for _, tg := range tags {
			c.Cover(tg)
		}
		p.run(c, cs)
	})
}

func c11Doc(r *core.Rand) string {
	for {
		d := gen.Deb822Doc(r)
		d.CRLF = 0
		if len(d.Paras) == 0 || len(d.Paras) > 2 {
			continue
		}
		text := d.Render()
		if len(text) > 700 || len(text) < 20 {
			continue
		}
		return text
	}
}

func region(doc []byte, off int) string {
	s := string(doc)
	sigStart := strings.Index(s, "-----BEGIN PGP SIGNATURE-----")
	endLine := strings.Index(s, "-----END PGP SIGNATURE-----")
	hdrEnd := strings.Index(s, "\n") + 1
	bodyStart := strings.Index(s, "\n\n") + 2
	switch {
	case off < hdrEnd:
		return "region:armor-header"
	case off < bodyStart:
		return "region:hash-header"
	case off < sigStart:
		return "region:body"
	case off < endLine:
		return "region:signature-armor"
	default:
		return "region:trailer"
	}
}

func (p c11) RunBatch(t *core.T, b core.Batch) {
	keys := testKeys(tierN(t.Tier, 1024, 2048))
	switch b.Name {
	case "corpus":
		// realistic workload: InRelease files fetched by apt (signed by several archive keys at once, some of them
		// absent from any one keyring) against the keyrings of the debian-archive-keyring package
		files, _ := filepath.Glob("/var/lib/apt/lists/*InRelease")
		rings, _ := filepath.Glob("/usr/share/keyrings/debian-archive-*.gpg")
		sort.Strings(files)
		sort.Strings(rings)
		if len(files) == 0 || len(rings) == 0 {
			t.Cover("corpus:unavailable")
			return
		}
		r := t.Rand("corpus", fmt.Sprint(b.Arg))
		for fi := b.Arg; fi < len(files); fi += 4 {
			doc, err := os.ReadFile(files[fi])
			if err != nil || len(doc) > 1<<20 {
				continue
			}
			for ri, ring := range rings {
				if t.Quick() && ri%3 != fi%3 {
					continue
				}
				kr, err := os.ReadFile(ring)
				if err != nil {
					continue
				}
				p.emit(t, c11Case{Input: doc, Keyring: kr, Fault: "none"}, "corpus:InRelease-x-archive-keyring")
				// a few edits of the real document under the same keyring
				for k := 0; k < tierN(t.Tier, 3, 12); k++ {
					nb := append([]byte{}, doc...)
					off := r.Intn(len(nb))
					nb[off] ^= byte(1 << uint(r.Intn(7)))
					p.emit(t, c11Case{Input: nb, Keyring: kr, Fault: fmt.Sprintf("corpus-edit@%d", off)}, "corpus:edited")
				}
			}
		}
	case "edit":
		for dn := 0; dn < b.N; dn++ {
			r := t.Rand("edit-doc", fmt.Sprint(dn)) // same documents in all 16 batches; each takes a stripe of the offsets
			text := c11Doc(r)
			signer := dn % 2
			doc := clearsignDoc(text, keys[signer])
			kr := serializeKeyring([]*openpgp.Entity{keys[signer]})
			if b.Arg == 0 {
				p.emit(t, c11Case{Input: doc, Keyring: kr, Fault: "none"}, "keyring:signer")
			}
			idx := 0
			for off := 0; off <= len(doc); off++ {
				var variants [][2]interface{}
				if off < len(doc) {
					for _, v := range []struct {
						tag string
						f   func(byte) byte
					}{{"xor01", func(x byte) byte { return x ^ 1 }}, {"xor20", func(x byte) byte { return x ^ 0x20 }}, {"X", func(byte) byte { return 'X' }}, {"nl", func(byte) byte { return '\n' }}} {
						nb := append([]byte{}, doc...)
						nb[off] = v.f(doc[off])
						if !bytes.Equal(nb, doc) {
							variants = append(variants, [2]interface{}{"edit:substitute/" + v.tag, nb})
						}
					}
					variants = append(variants, [2]interface{}{"edit:delete", append(append([]byte{}, doc[:off]...), doc[off+1:]...)})
				}
				for _, ins := range []byte{'A', ' ', '\n'} {
					nb := append(append(append([]byte{}, doc[:off]...), ins), doc[off:]...)
					variants = append(variants, [2]interface{}{"edit:insert", nb})
				}
				if off < len(doc) {
					variants = append(variants, [2]interface{}{"edit:truncate", append([]byte{}, doc[:off]...)})
				}
				for _, v := range variants {
					idx++
					if idx%16 != b.Arg {
						continue
					}
					tag := v[0].(string)
					o := off
					if o >= len(doc) {
						o = len(doc) - 1
					}
					p.emit(t, c11Case{Input: v[1].([]byte), Keyring: kr, Fault: fmt.Sprintf("%s@%d", tag, off)}, strings.SplitN(tag, "/", 2)[0], region(doc, o))
				}
			}
		}
	case "splice":
		r := t.Rand("splice", fmt.Sprint(b.Arg))
		for i := 0; i < b.N; i++ {
			text := c11Doc(r)
			signer := r.Intn(2)
			doc := string(clearsignDoc(text, keys[signer]))
			kr := serializeKeyring([]*openpgp.Entity{keys[signer]})
			foreignText := "Package: evil\nVersion: 6.6.6\n"
			foreignBlock := string(clearsignDoc(foreignText, keys[2]))
			sigStart := strings.Index(doc, "-----BEGIN PGP SIGNATURE-----")
			bodyStart := strings.Index(doc, "\n\n") + 2
			sigBlock := doc[sigStart:]
			sp := map[string]string{
				"splice:foreign-before":        foreignText + doc,
				"splice:foreign-before-blank":  foreignText + "\n" + doc,
				"splice:field-inside":          doc[:bodyStart] + "X-Evil: yes\n" + doc[bodyStart:],
				"splice:text-before-signature": doc[:sigStart] + foreignText + doc[sigStart:],
				"splice:text-after-end":        doc + "\n" + foreignText,
				"splice:foreign-block-before":  foreignBlock + doc,
				"splice:foreign-block-after":   doc + foreignBlock,
				"splice:duplicate-signature":   doc + sigBlock,
				"splice:hash-header":           strings.Replace(doc, "Hash: SHA256", r.Pick([]string{"Hash: SHA1", "Hash: MD5", "Hash: SHA512", "Hash: "}), 1),
			}
			// edits that OpenPGP's canonical text ignores (blanks at the end of a line): the signature still verifies,
			// and what comes out must be the VERIFIED text - in which a line of blanks is an empty line, i.e. a
			// paragraph separator - not a reading of the raw input
			body := doc[bodyStart:sigStart]
			padded := strings.ReplaceAll(body, "\n\n", "\n \t\n")
			if padded != body {
				sp["canon:blank-line-holds-blanks"] = doc[:bodyStart] + padded + doc[sigStart:]
			}
			sp["canon:blanks-appended-to-lines"] = doc[:bodyStart] + strings.ReplaceAll(body, "\n", " \t\n") + doc[sigStart:]
			for tag, in := range sp {
				fault := tag
				if tag == "splice:text-after-end" || tag == "splice:foreign-block-after" || tag == "splice:duplicate-signature" {
					// text after the signed block must never reach the caller; whether the document is still accepted
					// (with exactly the signed text) or refused on account of the junk is the reader's choice
					fault = "trailing:" + tag
				}
				p.emit(t, c11Case{Input: []byte(in), Keyring: kr, Fault: fault}, tag)
			}
		}
	case "keyring":
		r := t.Rand("keyring", fmt.Sprint(b.Arg))
		for i := 0; i < b.N; i++ {
			text := c11Doc(r)
			switch i % 8 {
			case 3:
				// control data older than the UTF-8 convention: ISO-8859-1 bytes, not valid UTF-8; what was signed is
				// bytes, and bytes must come out
				text = "Maintainer: Ren\xe9 M\xfcller <rene@example.org>\nComment: Stra\xdfe \xe9\n" + text
				t.Cover("doc:signed-bytes-are-not-utf8")
			case 5:
				// one signed line longer than 64 KiB (a Description or file list pasted into one line)
				text = "Long: " + r.Str("abcdefgh ijkl-mnop", r.Range(65600, 90000)) + "x\nAfter: kept\n" + text
				t.Cover("doc:signed-line>=64KiB")
			}
			signer := r.Intn(2)
			doc := clearsignDoc(text, keys[signer])
			if i%8 == 6 {
				// the whole document with CR LF line ends, armor lines included (a mail gateway, a Windows editor): the
				// signature covers the canonical text, which has CR LF ends anyway
				doc = bytes.ReplaceAll(doc, []byte("\n"), []byte("\r\n"))
				t.Cover("doc:crlf-line-ends-throughout")
			}
			p.emit(t, c11Case{Input: doc, Keyring: serializeKeyring([]*openpgp.Entity{keys[signer]}), Fault: "none"}, "keyring:signer")
			p.emit(t, c11Case{Input: doc, Keyring: serializeKeyring([]*openpgp.Entity{keys[2], keys[signer], keys[1-signer]}), Fault: "none"}, "keyring:signer+others")
			p.emit(t, c11Case{Input: doc, Keyring: serializeKeyring([]*openpgp.Entity{keys[2], keys[1-signer]}), Fault: "keyring-others"}, "keyring:others")
			p.emit(t, c11Case{Input: doc, Keyring: nil, Fault: "keyring-empty"}, "keyring:empty")
			p.emit(t, c11Case{Input: doc, NilList: true, Fault: "keyring-nil-list"}, "keyring:nil-list")
			// unsigned input with a keyring: no signer
			p.emit(t, c11Case{Input: []byte(text), Keyring: serializeKeyring([]*openpgp.Entity{keys[signer]}), Fault: "unsigned"}, "unsigned:plain")
		}
	}
}

func (p c11) RunCase(t *core.T, kind string, input []byte) {
	var cs c11Case
	if json.Unmarshal(input, &cs) == nil {
		t.Case(kind, input, func(c *core.C) { p.run(c, cs) })
	}
}
