package props

import (
	"bytes"
	"encoding/json"
	"fmt"
	"io"
	"os"
	"path/filepath"
	"strings"

	"pault.ag/go/debian/deb"

	"verif/internal/core"
	"verif/internal/model"
)

// C13 — ar reader returns every member with exact metadata and bytes.
type c13 struct{}

func init() { core.Register(c13{}) }

func (c13) ID() string    { return "C13" }
func (c13) Level() string { return "exploration" }
func (c13) Rule() string {
	return "archives generated from a member-list model (0..8 members; names of 1..16 bytes with and without the '/' terminator; sizes 0, 1, odd, even, up to 64 KiB; blank numeric fields; binary data containing header magic and '!<arch>'; last member odd with and without its padding byte) delivered as bytes.Reader, *os.File and a ReaderAt that reports io.EOF together with a full read ending exactly at the end; iterated with Next until io.EOF under a counting ReaderAt. Checked: member sequence and metadata, Data bytes read immediately / after the iterator advanced / after Seek(0,0) / via ReadAt ranges, end-of-archive report, and header reads at exactly 8 + sum(60+size+size%2). Non-trivial = archive with >= 1 member; distinct by hash of the archive bytes."
}
func (c13) Assumptions() []string {
	return []string{"ar(5) common format as dpkg writes it (no GNU long-name table)"}
}

func (c13) Batches(tier string, seed uint64) []core.Batch {
	return append(append(spread("ar", 16, tierN(tier, 900, 6000)), core.Batch{Name: "huge"}), conc(tierN(tier, 60, 400), "ar")...)
}

func (c13) Mandatory(tier string) []string {
	return []string{"members:0", "members:1", "members:2-4", "members:5+", "size:0", "size:odd", "last-odd:padded", "last-odd:unpadded", "name:16-bytes", "name:slash-terminated",
		"blank-numeric-fields", "zero-padded-numeric-fields", "member-after-odd", "pad-byte:not-newline-then-member", "data:magic-inside", "delivery:bytes.Reader", "delivery:os.File", "delivery:exact-EOF-ReaderAt", "delivery:bytes.Reader:direct-after-read", "delivery:os.File:direct-after-read", "delivery:SectionReader:direct", "name:inner-slash", "name:ends-in-slash-before-the-terminator", "nested-archive-through-member-reader", "size:>=2GiB", "size:>=4GiB", "size:>=9GiB",
		"read:immediately", "read:after-advance", "read:continued-after-advance", "read:reseek", "read:ReadAt"}
}

type c13Case struct {
	Members  []model.ArMember `json:"members"`
	PadLast  bool             `json:"padlast"`
	Pad      *byte            `json:"pad,omitempty"` // padding byte after odd-sized members; nil = '\n'
	Delivery string           `json:"delivery"`
	Seed     uint64           `json:"seed"`
}

func genArMembers(r *core.Rand, maxMembers int) []model.ArMember {
	n := r.Range(0, maxMembers)
	if r.Chance(1, 2) {
		n = r.Range(1, 4)
	}
	var out []model.ArMember
	names := []string{"debian-binary", "control.tar.gz", "data.tar.xz", "control.tar.zst", "data.tar", "_gpgorigin", "x", "0123456789abcdef", "control.tar.lzma", "file with space", "a.b-c_d+e", "sub/bare.o", "a/b/c", "x/y"}
	for i := 0; i < n; i++ {
		m := model.ArMember{Name: r.Pick(names), Timestamp: int64(r.Intn(2000000000)), Owner: int64(r.Intn(100000)), Group: int64(r.Intn(100000)),
			Mode: r.Pick([]string{"100644", "100755", "644", "0", "00100644", "37777777"})} // (the last two fill all 8 columns)
		if r.Chance(1, 4) {
			m.Name = r.Str("abcdefghijklmnopqrstuvwxyz0123456789._-+", r.Range(1, 16))
		}
		if r.Chance(1, 4) && len(m.Name) < 16 {
			m.Slash = true
		}
		if r.Chance(1, 24) {
			// a name that itself ends in a slash, written with the terminator ("dir//"): ONE slash is the terminator
			m.Name, m.Slash = r.Pick([]string{"dir/", "a//", "sub/dir/", "x/"}), true
		}
		if r.Chance(1, 6) {
			m.Blank = true
		}
		if r.Chance(1, 6) {
			m.ZeroPad = true
		}
		if r.Chance(1, 8) {
			m.Timestamp, m.Owner, m.Group = 999999999999, 999999, 999999
		}
		var size int
		switch r.Intn(8) {
		case 0:
			size = 0
		case 1:
			size = 1
		case 2:
			size = r.Range(1, 50)*2 + 1
		case 3:
			size = r.Range(1, 50) * 2
		case 4:
			size = r.Range(1000, 65536)
		default:
			size = r.Range(0, 300)
		}
		m.Data = r.Bytes(size)
		if size > 70 && r.Chance(1, 2) { // data that looks like archive structure
			copy(m.Data[r.Intn(size-68):], "!<arch>\n")
			copy(m.Data[r.Intn(size-62):], model.ArMember{Name: "fake", Data: []byte("xx")}.ArHeader())
		}
		out = append(out, m)
	}
	return out
}

func (p c13) run(c *core.C, t *core.T, cs c13Case) {
	raw := model.WriteAr(cs.Members, cs.PadLast)
	if cs.Pad != nil && *cs.Pad != '\n' {
		raw = model.WriteArPad(cs.Members, cs.PadLast, *cs.Pad)
		for i, m := range cs.Members {
			if len(m.Data)%2 == 1 && i < len(cs.Members)-1 {
				c.Cover("pad-byte:not-newline-then-member")
			}
		}
	}
	var src io.ReaderAt
	cr := &core.CountingReaderAt{HeaderLen: 60, Size: int64(len(raw))}
	switch strings.TrimSuffix(cs.Delivery, ":direct-after-read") {
	case "os.File":
		path := filepath.Join(t.WorkDir, "c13.ar")
		if err := os.WriteFile(path, raw, 0o644); err != nil {
			c.Failf("harness: %v", err)
			return
		}
		f, err := os.Open(path)
		if err != nil {
			c.Failf("harness: %v", err)
			return
		}
		defer f.Close()
		src = f
	case "exact-EOF-ReaderAt":
		src = bytes.NewReader(raw)
		cr.ExactEOF = true
	default:
		src = bytes.NewReader(raw)
	}
	cr.In = src
	var input io.ReaderAt = cr
	if strings.HasSuffix(cs.Delivery, ":direct-after-read") || cs.Delivery == "SectionReader:direct" {
		// the reader itself, not a wrapper (it also has Seek, Size, ...), and - ReadAt being positional - after
		// it was read sequentially: the caller sniffed the magic, or hashed the whole file first
		input = src
		if cs.Delivery == "SectionReader:direct" {
			input = io.NewSectionReader(src, 0, int64(len(raw)))
		}
		if rd, ok := input.(io.Reader); ok {
			n := int64(8)
			if cs.Seed%2 == 0 {
				n = int64(len(raw))
			}
			io.CopyN(io.Discard, rd, n)
		}
	}
	ar, err := deb.LoadAr(input)
	if err != nil {
		c.Failf("LoadAr failed on a well-formed archive of %d members: %v", len(cs.Members), err)
		return
	}
	r := core.NewRand(cs.Seed, "c13")
	var entries []*deb.ArEntry
	readNow := map[int]bool{}
	partial := map[int]int{}
	checkData := func(i int, e *deb.ArEntry, when string) {
		want := cs.Members[i].Data
		if _, err := e.Data.Seek(0, 0); err != nil {
			c.Failf("member %d (%s): Seek(0,0): %v", i, when, err)
			return
		}
		got, err := io.ReadAll(e.Data)
		if err != nil || !bytes.Equal(got, want) {
			c.Failf("member %d %q read %s: got %d bytes (err %v), the archive holds %d; first difference at %d", i, cs.Members[i].Name, when, len(got), err, len(want), firstDiff(got, want))
		}
		c.Cover("read:" + when)
	}
	for i := 0; i <= len(cs.Members)+1; i++ {
		cr.Track = true
		e, err := ar.Next()
		cr.Track = false
		if err == io.EOF {
			break
		}
		if err != nil {
			c.Failf("Next() #%d failed on a well-formed archive: %v (delivery %s)", i, err, cs.Delivery)
			return
		}
		entries = append(entries, e)
		if i < len(cs.Members) && len(cs.Members[i].Data) >= 2 && r.Chance(1, 3) {
			// read the first half now, the rest after the iterator has advanced (no seek in between)
			half := len(cs.Members[i].Data) / 2
			buf := make([]byte, half)
			if _, err := io.ReadFull(e.Data, buf); err != nil || !bytes.Equal(buf, cs.Members[i].Data[:half]) {
				c.Failf("member %d %q: first half read immediately differs (err %v)", i, cs.Members[i].Name, err)
			}
			partial[i] = half
		} else if i < len(cs.Members) && r.Bool() {
			readNow[i] = true
			got, err := io.ReadAll(e.Data)
			if err != nil || !bytes.Equal(got, cs.Members[i].Data) {
				c.Failf("member %d %q read immediately: got %d bytes (err %v), want %d", i, cs.Members[i].Name, len(got), err, len(cs.Members[i].Data))
			}
			c.Cover("read:immediately")
		}
	}
	if len(entries) != len(cs.Members) {
		c.Failf("iteration returned %d members, the archive has %d (delivery %s)", len(entries), len(cs.Members), cs.Delivery)
		return
	}
	// one more Next must keep reporting the end
	cr.Track = true
	if e, err := ar.Next(); err != io.EOF {
		c.Failf("Next() after the last member returned %v, %v instead of io.EOF", e, err)
	}
	cr.Track = false
	for i, m := range cs.Members {
		e := entries[i]
		wantT, wantO, wantG, wantMode := m.Timestamp, m.Owner, m.Group, m.Mode
		if m.Blank {
			wantT, wantO, wantG, wantMode = 0, 0, 0, ""
		}
		if e.Name != m.Name || e.Timestamp != wantT || e.OwnerID != wantO || e.GroupID != wantG || e.FileMode != wantMode || e.Size != int64(len(m.Data)) {
			c.Failf("member %d metadata {%q t=%d uid=%d gid=%d mode=%q size=%d}, the archive says {%q t=%d uid=%d gid=%d mode=%q size=%d}",
				i, e.Name, e.Timestamp, e.OwnerID, e.GroupID, e.FileMode, e.Size, m.Name, wantT, wantO, wantG, wantMode, len(m.Data))
		}
		if e.Data == nil {
			c.Failf("member %d has no Data reader", i)
			continue
		}
		if e.Data.Size() != int64(len(m.Data)) {
			c.Failf("member %d Data.Size() = %d, want %d", i, e.Data.Size(), len(m.Data))
		}
		if half, ok := partial[i]; ok {
			rest, err := io.ReadAll(e.Data)
			if err != nil || !bytes.Equal(rest, m.Data[half:]) {
				c.Failf("member %d %q: after the iterator advanced, continuing a half-finished read delivers %d bytes (err %v) that differ from the member's remaining %d bytes", i, m.Name, len(rest), err, len(m.Data)-half)
			}
			c.Cover("read:continued-after-advance")
			checkData(i, e, "reseek")
		} else if readNow[i] {
			checkData(i, e, "reseek")
		} else {
			checkData(i, e, "after-advance")
		}
		if n := len(m.Data); n > 0 {
			a := r.Intn(n)
			b := a + r.Intn(n-a) + 1
			buf := make([]byte, b-a)
			k, err := e.Data.ReadAt(buf, int64(a))
			if (err != nil && err != io.EOF) || k != len(buf) || !bytes.Equal(buf, m.Data[a:b]) {
				c.Failf("member %d Data.ReadAt(%d..%d) = %d bytes, %v; differs from the archive", i, a, b, k, err)
			}
			c.Cover("read:ReadAt")
		}
		// coverage
		switch {
		case len(m.Data) == 0:
			c.Cover("size:0")
		case len(m.Data)%2 == 1:
			c.Cover("size:odd")
			if i < len(cs.Members)-1 {
				c.Cover("member-after-odd")
			} else if cs.PadLast {
				c.Cover("last-odd:padded")
			} else {
				c.Cover("last-odd:unpadded")
			}
		}
		if len(m.Name)+map[bool]int{true: 1, false: 0}[m.Slash] == 16 {
			c.Cover("name:16-bytes")
		}
		if m.Slash {
			c.Cover("name:slash-terminated")
		}
		if strings.Contains(m.Name, "/") && !m.Slash {
			c.Cover("name:inner-slash")
		}
		if strings.HasSuffix(m.Name, "/") && m.Slash {
			c.Cover("name:ends-in-slash-before-the-terminator")
		}
		if m.Blank {
			c.Cover("blank-numeric-fields")
		}
		if m.ZeroPad && !m.Blank {
			c.Cover("zero-padded-numeric-fields")
		}
		if bytes.Contains(m.Data, []byte("!<arch>\n")) {
			c.Cover("data:magic-inside")
		}
	}
	// header read offsets
	want := model.HeaderOffsets(cs.Members)
	got := cr.Headers
	// the reader looks once more after the last member, and again on the extra Next
	ok := len(got) >= len(want)
	for i := 0; ok && i < len(want); i++ {
		ok = got[i] == want[i]
	}
	for i := len(want); ok && i < len(got); i++ {
		ok = got[i] == want[len(want)-1]
	}
	// evidence only: how the implementation reads headers is its own business (a benign
	// refactoring may read them differently); wrong offsets show up as wrong members or bytes
	if ok {
		c.Cover("header-reads-at-the-model-offsets")
	} else {
		c.Cover("header-reads-elsewhere(not judged)")
	}
	switch n := len(cs.Members); {
	case n == 0:
		c.Cover("members:0")
	case n == 1:
		c.Cover("members:1")
	case n <= 4:
		c.Cover("members:2-4")
	default:
		c.Cover("members:5+")
	}
	c.Cover("delivery:" + cs.Delivery)
	// an archive as a member of another archive, opened through the member's own reader (which is an io.ReaderAt):
	// it must yield ITS members and then end - not run on into the outer archive
	if cs.Seed%4 == 0 && len(cs.Members) > 0 && len(cs.Members) <= 4 {
		inner := model.WriteAr(cs.Members, cs.PadLast)
		outer := model.WriteAr([]model.ArMember{{Name: "before.txt", Timestamp: 1, Mode: "100644", Data: []byte("x")},
			{Name: "nested.a", Timestamp: 1, Mode: "100644", Data: inner},
			{Name: "after.txt", Timestamp: 1, Mode: "100644", Data: []byte("outer archive, third member")}}, true)
		if oa, err := deb.LoadAr(bytes.NewReader(outer)); err == nil {
			oa.Next()
			if ne, err := oa.Next(); err == nil && ne != nil && ne.Name == "nested.a" {
				// the caller sniffs the magic first (that is how he knows it is an archive) ...
				sniff := make([]byte, 8)
				io.ReadFull(ne.Data, sniff)
				ia, err := deb.LoadAr(ne.Data)
				if err != nil {
					c.Failf("LoadAr on the reader of a member that holds a well-formed archive failed: %v", err)
				} else {
					var names []string
					for i := 0; i <= len(cs.Members)+2; i++ {
						e, err := ia.Next()
						if err != nil {
							if err != io.EOF {
								c.Failf("nested archive: Next #%d failed: %v", i, err)
							}
							break
						}
						names = append(names, e.Name)
					}
					var want []string
					for _, m := range cs.Members {
						want = append(want, m.Name)
					}
					if strings.Join(names, "|") != strings.Join(want, "|") {
						c.Failf("an archive opened through the reader of the outer member holding it yields members %q, it has %q", names, want)
					}
					// ... and goes on reading where he was: opening and walking the inner archive used ReadAt, which
					// does not move the reader's own position
					if rest, err := io.ReadAll(ne.Data); err != nil || !bytes.Equal(rest, inner[8:]) {
						c.Failf("after 8 bytes were read from a member reader, LoadAr over it and a walk of the inner archive, reading on delivers %d bytes (err %v) that are not the member's bytes from offset 8 on (%d bytes)", len(rest), err, len(inner)-8)
					}
					c.Cover("nested-archive-through-member-reader")
				}
			}
		}
	}
	if len(cs.Members) > 0 {
		c.Nontrivial()
	}
}

func firstDiff(a, b []byte) int {
	for i := 0; i < len(a) && i < len(b); i++ {
		if a[i] != b[i] {
			return i
		}
	}
	if len(a) != len(b) {
		if len(a) < len(b) {
			return len(a)
		}
		return len(b)
	}
	return -1
}

func (p c13) RunBatch(t *core.T, b core.Batch) {
	if concDispatch(p, t, b) {
		return
	}
	if b.Name == "huge" {
		for _, sz := range []int64{1 << 31, 1<<31 + 1, 1<<32 + 2, 1<<32 + 7, 9999999999} {
			sz := sz
			t.Case("huge", []byte(fmt.Sprint(sz)), func(c *core.C) { p.hugeCase(c, sz) })
		}
		return
	}
	r := t.Rand("ar", fmt.Sprint(b.Arg))
	for i := 0; i < b.N; i++ {
		cs := c13Case{Members: genArMembers(r, 8), PadLast: r.Bool(), Delivery: r.Pick([]string{"bytes.Reader", "bytes.Reader", "os.File", "exact-EOF-ReaderAt", "bytes.Reader:direct-after-read", "os.File:direct-after-read", "SectionReader:direct"}), Seed: r.U64()}
		if r.Chance(1, 4) {
			pb := r.PickByte("\x00\x00 `\xff0")
			cs.Pad = &pb
		}
		in, _ := json.Marshal(cs)
		t.Case("ar", in, func(c *core.C) { p.run(c, t, cs) })
	}
}

func (p c13) RunCase(t *core.T, kind string, input []byte) {
	if kind == "huge" {
		var sz int64
		if _, err := fmt.Sscanf(string(input), "%d", &sz); err == nil && sz > 0 && sz <= 9999999999 {
			t.Case(kind, input, func(c *core.C) { p.hugeCase(c, sz) })
		}
		return
	}
	var cs c13Case
	if json.Unmarshal(input, &cs) == nil {
		t.Case(kind, input, func(c *core.C) { p.run(c, t, cs) })
	}
}
