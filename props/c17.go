package props

import (
	"bufio"
	"encoding/json"
	"fmt"
	"io"
	"os"
	"os/exec"
	"path/filepath"
	"strings"
	"syscall"
	"time"

	"pault.ag/go/debian/changelog"

	"verif/internal/core"
	"verif/internal/gen"
	"verif/internal/model"
)

// C17 — changelog parsing returns every entry faithfully, or an error.
type c17 struct{}

func init() { core.Register(c17{}) }

func (c17) ID() string    { return "C17" }
func (c17) Level() string { return "fault_enumeration" }
func (c17) Rule() string {
	return "changelogs generated from an entry-list model (1..6 entries; versions from the version grammar; 1..3 distributions; 1..3 key=value options; bodies with leading/inner/trailing blank lines and lines of blanks/tabs/CR only, bullets, deeper indentation; maintainers without double spaces; zone offsets -1200..+1400 incl. +0530; blank-line runs 1..3 between entries and at the start; final newline present or absent) must parse (Parse, and ParseOne in sequence) to exactly the model: count, order, Source, Version, Target, Arguments, verbatim body, ChangedBy, When (instant and zone offset). Fault enumeration: EVERY prefix of each of a set of changelogs: a prefix that ends between entries must give exactly the complete entries without error; one that ends inside an entry must give an error (or, when only the entry's final newline is missing, that entry too) - never a silently shortened list; the same for a source that fails with a non-EOF read error after k bytes (every entry boundary +-1 and random k). Malformed headers/trailers/dates must give an error. Non-trivial = changelog with >= 2 entries, every prefix inside an entry, every malformed case; distinct by hash."
}
func (c17) Assumptions() []string {
	return []string{"Target is compared after splitting on blanks", "CRLF changelogs are not generated"}
}

func (c17) Batches(tier string, seed uint64) []core.Batch {
	var b []core.Batch
	b = append(b, spread("full", 4, tierN(tier, 800, 4000))...)
	b = append(b, spread("prefix", 16, tierN(tier, 8, 60))...)
	b = append(b, spread("malformed", 2, tierN(tier, 600, 3000))...)
	b = append(b, spread("corpus", 8, 0)...) // installed Debian changelogs vs dpkg-parsechangelog (c17corpus.go)
	if tier == "thorough" {
		b = append(b, spread("dpkg-legality", 4, 60)...)
	}
	return b
}

func (c17) Mandatory(tier string) []string {
	return []string{"full:entries>=2", "full:no-final-newline", "full:leading-blank-lines", "full:multi-distribution", "full:multi-option", "full:zone-half-hour", "full:zone-negative",
		"prefix:between-entries", "prefix:in-header", "prefix:in-body", "prefix:in-trailer", "prefix:missing-only-final-newline", "prefix:empty", "outcome:error", "outcome:entries",
		"malformed:version", "malformed:no-date", "malformed:month", "malformed:column0-body", "malformed:no-trailer", "malformed:indented-header", "full:line>=4096-bytes", "path:Parse", "path:ParseOne", "path:ParseOne-16-byte-reader", "path:ParseFile", "path:ParseFile-fifo", "path:Parse-onebyte-reader", "path:Parse-data+EOF-reader", "path:Parse-failing-source", "full:entry-without-options", "full:body-line-of-blanks-only", "env:time.Local-varied"}
}

type clEntry struct {
	Source  string      `json:"src"`
	Version string      `json:"ver"`
	Dists   []string    `json:"dists"`
	Opts    [][2]string `json:"opts"`
	Body    string      `json:"body"` // verbatim, between header and trailer
	Who     string      `json:"who"`
	When    string      `json:"when"` // RFC1123Z text
	Sep     int         `json:"sep"`  // blank lines after the entry
	// DayStyle: how a day of the month below 10 is written in the trailer: 0 "03", 1 "3", 2 " 3" (deb-changelog(5): one or two digits)
	DayStyle int `json:"daystyle,omitempty"`
	// After: lines between this entry and the next (or the end): comment lines ("# ...") and lines of blanks
	After []string          `json:"after,omitempty"`
	_     map[string]string `json:"-"`
}

type clDoc struct {
	Lead    int       `json:"lead"`
	Entries []clEntry `json:"entries"`
	NoFinal bool      `json:"nofinal"`
}

func (e clEntry) header() string {
	var o []string
	for _, kv := range e.Opts {
		o = append(o, kv[0]+"="+kv[1])
	}
	if len(o) == 0 { // no options at all (the semicolon stays)
		return fmt.Sprintf("%s (%s) %s;\n", e.Source, e.Version, strings.Join(e.Dists, " "))
	}
	return fmt.Sprintf("%s (%s) %s; %s\n", e.Source, e.Version, strings.Join(e.Dists, " "), strings.Join(o, ", "))
}

func (e clEntry) trailer() string {
	when := e.When
	if len(when) > 7 && when[5] == '0' && e.DayStyle > 0 { // "Mon, 03 Jan ..."
		when = when[:5] + []string{"", "", " "}[e.DayStyle] + when[6:]
	}
	return fmt.Sprintf(" -- %s  %s\n", e.Who, when)
}

// render returns the text and, per entry, the offset just after its trailer's newline.
func (d clDoc) render() (string, []int, []int) {
	var sb strings.Builder
	sb.WriteString(strings.Repeat("\n", d.Lead))
	var starts, ends []int
	for i, e := range d.Entries {
		starts = append(starts, sb.Len())
		sb.WriteString(e.header())
		sb.WriteString(e.Body)
		sb.WriteString(e.trailer())
		ends = append(ends, sb.Len())
		if i < len(d.Entries)-1 || !d.NoFinal {
			sb.WriteString(strings.Repeat("\n", e.Sep))
			for _, l := range e.After {
				sb.WriteString(l + "\n")
			}
		}
	}
	s := sb.String()
	if d.NoFinal && len(d.Entries) > 0 {
		s = strings.TrimRight(s, "\n")
	}
	return s, starts, ends
}

var clZones = []string{"+0000", "-0700", "+0530", "+1400", "-1200", "+0100", "-0330", "+0545", "+0900", "+0200", "-0230", "-0600", "+0930", "+1030"}

func genChangelog(r *core.Rand, maxEntries int) clDoc {
	d := clDoc{}
	if r.Chance(1, 4) {
		d.Lead = r.Range(1, 3)
	}
	n := r.Range(1, maxEntries)
	days := []string{"Mon", "Tue", "Wed", "Thu", "Fri", "Sat", "Sun"}
	for i := 0; i < n; i++ {
		e := clEntry{Source: gen.PkgName(r), Sep: r.Range(1, 3)}
		for {
			e.Version = gen.Version(r).Text
			if len(e.Version) < 40 {
				break
			}
		}
		for k := r.Range(1, 3); k > 0; k-- {
			e.Dists = append(e.Dists, r.Pick([]string{"unstable", "experimental", "stable-security", "bookworm-backports", "UNRELEASED"}))
		}
		if !r.Chance(1, 8) || i == 0 {
			e.Opts = append(e.Opts, [2]string{"urgency", r.Pick([]string{"low", "medium", "high", "critical", "HIGH", "Medium", "emergency"})})
			for k := r.Range(0, 2); k > 0; k-- {
				e.Opts = append(e.Opts, [2]string{r.Pick([]string{"binary-only", "x-key", "team"}) + fmt.Sprint(k), r.Pick([]string{"yes", "no", "a-b"})})
			}
		}
		var body strings.Builder
		body.WriteString(strings.Repeat("\n", r.Range(1, 2)))
		for k := r.Range(1, 5); k > 0; k-- {
			switch r.Intn(5) {
			case 0:
				// separator lines as editors leave them: empty, or blanks only
				body.WriteString(r.Pick([]string{"\n", "\n", "  \n", " \n", "\t\n", "   \t \n", " \r\n"}))
			case 1:
				l := gen.ValueLine(r)
				if len(l) > 40 {
					l = l[:40]
				}
				body.WriteString("    " + strings.TrimRight(l, " \t") + "\n")
			case 2:
				body.WriteString("  [ " + person(r) + " ]\n")
			default:
				l := gen.ValueLine(r)
				if len(l) > 60 && len(l) < 4000 {
					l = l[:60]
				}
				body.WriteString("  * " + strings.TrimRight(l, " \t") + "\n")
			}
		}
		body.WriteString(strings.Repeat("\n", r.Range(1, 2)))
		e.Body = body.String()
		e.Who = person(r)
		e.DayStyle = r.Intn(3)
		if r.Chance(1, 6) {
			for k := r.Range(1, 2); k > 0; k-- {
				e.After = append(e.After, r.Pick([]string{"# Older entries have been removed from this changelog.", "#", "# vim: set ft=debchangelog:", "   ", " \t", "#no blank after the hash"}))
			}
		}
		ts := time.Date(2000+r.Intn(30), time.Month(1+r.Intn(12)), 1+r.Intn(28), r.Intn(24), r.Intn(60), r.Intn(60), 0, time.UTC)
		e.When = fmt.Sprintf("%s, %02d %s %d %02d:%02d:%02d %s", days[int(ts.Weekday()+6)%7], ts.Day(), ts.Month().String()[:3], ts.Year(), ts.Hour(), ts.Minute(), ts.Second(), r.Pick(clZones))
		// the weekday must match the date in the entry's own zone; recompute via a parse
		if tt, err := time.Parse("02 Jan 2006 15:04:05 -0700", e.When[5:]); err == nil {
			e.When = tt.Format(time.RFC1123Z)
		}
		d.Entries = append(d.Entries, e)
	}
	d.NoFinal = r.Chance(1, 3)
	return d
}

func diffEntry(g changelog.ChangelogEntry, w clEntry) string {
	if g.Source != w.Source {
		return fmt.Sprintf("Source %q, want %q", g.Source, w.Source)
	}
	if modVer(g.Version) != splitText(w.Version) {
		return fmt.Sprintf("Version %+v, want %q", g.Version, w.Version)
	}
	if !eqLines(strings.Fields(g.Target), w.Dists) {
		return fmt.Sprintf("Target %q, want %q", g.Target, w.Dists)
	}
	if len(w.Opts) == 0 {
		// no options written: no option may be reported (an entry for the empty key is tolerated)
		for k, v := range g.Arguments {
			if k != "" || v != "" {
				return fmt.Sprintf("Arguments %v for a header without options", g.Arguments)
			}
		}
		return diffEntryRest(g, w)
	}
	if len(g.Arguments) != len(w.Opts) {
		return fmt.Sprintf("Arguments %v, want %v", g.Arguments, w.Opts)
	}
	for _, kv := range w.Opts {
		if v, ok := g.Arguments[kv[0]]; !ok || v != kv[1] {
			return fmt.Sprintf("Arguments %v, want %v", g.Arguments, w.Opts)
		}
	}
	return diffEntryRest(g, w)
}

func diffEntryRest(g changelog.ChangelogEntry, w clEntry) string {
	if g.Changelog != w.Body {
		return fmt.Sprintf("change text %q, want %q", g.Changelog, w.Body)
	}
	if g.ChangedBy != w.Who {
		return fmt.Sprintf("ChangedBy %q, want %q", g.ChangedBy, w.Who)
	}
	wt, err := time.Parse(time.RFC1123Z, w.When)
	if err != nil {
		return "harness: bad model date " + w.When
	}
	_, go1 := g.When.Zone()
	_, wo := wt.Zone()
	if !g.When.Equal(wt) || go1 != wo {
		return fmt.Sprintf("When %v (offset %d), want %v (offset %d)", g.When, go1, wt, wo)
	}
	return ""
}

// failingReader delivers s and then fails with an error that is not io.EOF.
type failingReader struct {
	s   string
	off int
}

var errInjectedRead = fmt.Errorf("injected read error (harness)")

func (f *failingReader) Read(p []byte) (int, error) {
	if f.off >= len(f.s) {
		return 0, errInjectedRead
	}
	n := copy(p, f.s[f.off:])
	f.off += n
	return n, nil
}

var c17LocalList []*time.Location

// c17Locals: process time zones a reader may run in: fixed ones and, where the zone database is installed, zones
// with daylight saving (there the same written offset is the local one in one season only).
func c17Locals() []*time.Location {
	if c17LocalList == nil {
		l := []*time.Location{time.UTC, time.FixedZone("CEST", 7200), time.FixedZone("NST", -12600), time.FixedZone("", 14*3600)}
		for _, name := range []string{"Europe/Berlin", "America/St_Johns", "Australia/Adelaide", "America/Denver"} {
			if loc, err := time.LoadLocation(name); err == nil {
				l = append(l, loc)
			}
		}
		c17LocalList = l
	}
	return c17LocalList
}

func parseOneLoop(text string) ([]changelog.ChangelogEntry, error) {
	return parseOneLoopSized(text, 4096)
}

// parseOneLoopSized: the caller owns the bufio.Reader and may have made it small.
func parseOneLoopSized(text string, size int) ([]changelog.ChangelogEntry, error) {
	rd := bufio.NewReaderSize(strings.NewReader(text), size)
	var out []changelog.ChangelogEntry
	for i := 0; i <= len(text)+1; i++ {
		e, err := changelog.ParseOne(rd)
		if err == io.EOF {
			return out, nil
		}
		if err != nil {
			return out, err
		}
		out = append(out, *e)
	}
	return out, fmt.Errorf("ParseOne does not terminate")
}

func (p c17) full(c *core.C, d clDoc) {
	text, _, _ := d.render()
	// the process time zone varies from case to case: the instant and offset of a trailer date are what the
	// text says, wherever the reader happens to run
	oldLocal := time.Local
	zones := c17Locals()
	time.Local = zones[len(text)%len(zones)]
	defer func() { time.Local = oldLocal }()
	c.Cover("env:time.Local-varied")
	if len(zones) > 4 && len(text)%len(zones) >= 4 {
		c.Cover("env:time.Local-with-daylight-saving")
	}
	for _, path := range []string{"Parse", "Parse-onebyte-reader", "Parse-data+EOF-reader", "Parse-chunk-reader", "ParseFile", "ParseFile-fifo", "ParseOne", "ParseOne-16-byte-reader", "ParseOne-200-byte-reader", "ParseOne-64KiB-reader"} {
		var got []changelog.ChangelogEntry
		var err error
		switch path {
		case "Parse":
			var g changelog.ChangelogEntries
			g, err = changelog.Parse(strings.NewReader(text))
			got = g
		case "Parse-onebyte-reader", "Parse-data+EOF-reader", "Parse-chunk-reader":
			kind := map[string]string{"Parse-onebyte-reader": "onebyte", "Parse-data+EOF-reader": "data+EOF", "Parse-chunk-reader": "chunks"}[path]
			var g changelog.ChangelogEntries
			g, err = changelog.Parse(mkReader(kind, text, uint64(len(text))))
			got = g
		case "ParseFile":
			dir := os.Getenv("VERIF_WORK_RUN")
			if dir == "" {
				continue
			}
			fp := filepath.Join(dir, fmt.Sprintf("c17-%d.changelog", os.Getpid()))
			if os.WriteFile(fp, []byte(text), 0o644) != nil {
				continue
			}
			var g changelog.ChangelogEntries
			g, err = changelog.ParseFile(fp)
			got = g
			if one, oerr := changelog.ParseFileOne(fp); len(d.Entries) > 0 {
				if oerr != nil || one == nil {
					c.Failf("ParseFileOne failed on a well-formed changelog: %v", oerr)
				} else if diff := diffEntry(*one, d.Entries[0]); diff != "" {
					c.Failf("ParseFileOne: %s", diff)
				}
			}
			os.Remove(fp)
		case "ParseFile-fifo":
			// a path that is not a regular file (a named pipe, /dev/stdin): its size says nothing about its content
			dir := os.Getenv("VERIF_WORK_RUN")
			if dir == "" || len(text)%4 != 0 {
				continue
			}
			fp := filepath.Join(dir, fmt.Sprintf("c17-%d.fifo", os.Getpid()))
			os.Remove(fp)
			if syscall.Mkfifo(fp, 0o600) != nil {
				continue
			}
			done := make(chan struct{})
			go func() {
				defer close(done)
				if w, err := os.OpenFile(fp, os.O_WRONLY, 0); err == nil {
					io.WriteString(w, text)
					w.Close()
				}
			}()
			var g changelog.ChangelogEntries
			g, err = changelog.ParseFile(fp)
			got = g
			// the writer may still be blocked in open() or write(): let it through
			if rd, e := os.OpenFile(fp, os.O_RDONLY|syscall.O_NONBLOCK, 0); e == nil {
				for k := 0; k < 200; k++ {
					select {
					case <-done:
						k = 200
					default:
						io.Copy(io.Discard, rd)
						time.Sleep(time.Millisecond)
					}
				}
				rd.Close()
			}
			<-done
			os.Remove(fp)
		case "ParseOne":
			got, err = parseOneLoop(text)
		case "ParseOne-16-byte-reader":
			got, err = parseOneLoopSized(text, 16)
		case "ParseOne-200-byte-reader":
			got, err = parseOneLoopSized(text, 200)
		default:
			got, err = parseOneLoopSized(text, 65536)
		}
		c.Cover("path:" + path)
		if err != nil {
			c.Failf("%s failed on a well-formed changelog: %v\nchangelog: %q", path, err, text)
			continue
		}
		if len(got) != len(d.Entries) {
			c.Failf("%s returned %d entries, the changelog has %d\nchangelog: %q", path, len(got), len(d.Entries), text)
			continue
		}
		for i, w := range d.Entries {
			if diff := diffEntry(got[i], w); diff != "" {
				c.Failf("%s entry %d: %s\nchangelog: %q", path, i, diff, text)
				break
			}
		}
	}
	// a source that fails with a real I/O error (not io.EOF) after k bytes: Parse must report an
	// error or return every entry - never a silently shortened list. k ranges over every entry
	// boundary and a few other offsets.
	_, starts, ends := d.render()
	fr := core.NewRand(uint64(len(text)), "c17-failing-source")
	ks := append(append([]int{0, len(text)}, starts...), ends...)
	for i := 0; i < 4; i++ {
		ks = append(ks, fr.Intn(len(text)+1))
	}
	for _, e := range ends {
		ks = append(ks, e+1, e-1)
	}
	for _, k := range ks {
		if k < 0 || k > len(text) {
			continue
		}
		for _, size := range []int{0, 16} {
			var src io.Reader = &failingReader{s: text[:k]}
			if size > 0 {
				src = bufio.NewReaderSize(src, size)
			}
			g, err := changelog.Parse(src)
			if err == nil && len(g) != len(d.Entries) {
				c.Failf("Parse over a source that fails with an I/O error after %d of %d bytes returned %d of %d entries and no error\nchangelog: %q", k, len(text), len(g), len(d.Entries), text)
			}
		}
		c.Cover("path:Parse-failing-source")
	}
	if len(d.Entries) >= 2 {
		c.Cover("full:entries>=2")
		c.Nontrivial()
	}
	if d.NoFinal {
		c.Cover("full:no-final-newline")
	}
	if d.Lead > 0 {
		c.Cover("full:leading-blank-lines")
	}
	for _, e := range d.Entries {
		if len(e.Opts) == 0 {
			c.Cover("full:entry-without-options")
		}
		for _, l := range strings.Split(e.Body, "\n") {
			if len(l) >= 4096 {
				c.Cover("full:line>=4096-bytes")
			}
		}
		for _, l := range strings.Split(e.Body, "\n") {
			if l != "" && strings.Trim(l, " \t\r") == "" {
				c.Cover("full:body-line-of-blanks-only")
			}
		}
		if len(e.Dists) > 1 {
			c.Cover("full:multi-distribution")
		}
		if len(e.Opts) > 1 {
			c.Cover("full:multi-option")
		}
		if strings.HasSuffix(e.When, "30") || strings.HasSuffix(e.When, "45") {
			c.Cover("full:zone-half-hour")
		}
		if strings.Contains(e.When[len(e.When)-5:], "-") {
			c.Cover("full:zone-negative")
		}
	}
}

// sameDate: two trailer dates that differ at most in how the day of the month is written.
func sameDate(a, b string) bool {
	ta, oka := dpkgDate(a)
	tb, okb := dpkgDate(b)
	if !oka || !okb {
		return a == b
	}
	_, za := ta.Zone()
	_, zb := tb.Zone()
	return ta.Equal(tb) && za == zb
}

type c17Prefix struct {
	Doc clDoc `json:"doc"`
	P   int   `json:"p"`
}

func (p c17) prefix(c *core.C, cs c17Prefix) {
	full, starts, ends := cs.Doc.render()
	if cs.P > len(full) {
		return
	}
	text := full[:cs.P]
	k := 0
	for k < len(ends) && ends[k] <= cs.P {
		k++
	}
	from := 0
	if k > 0 {
		from = ends[k-1]
	}
	rest := text[from:]
	_ = rest
	// inside entry k: at least one byte of its header has been seen (what lies between ends[k-1] and starts[k] are
	// blank lines, comment lines and lines of blanks)
	inside := k < len(starts) && cs.P > starts[k]
	onlyFinalNL := inside && k < len(ends) && cs.P == ends[k]-1
	// position class
	switch {
	case cs.P == 0:
		c.Cover("prefix:empty")
	case !inside:
		c.Cover("prefix:between-entries")
	case onlyFinalNL:
		c.Cover("prefix:missing-only-final-newline")
	default:
		e := cs.Doc.Entries[k]
		off := cs.P - starts[k]
		switch {
		case off <= len(e.header()):
			c.Cover("prefix:in-header")
		case off <= len(e.header())+len(e.Body):
			c.Cover("prefix:in-body")
		default:
			c.Cover("prefix:in-trailer")
		}
	}
	for _, path := range []string{"Parse", "ParseOne"} {
		var got []changelog.ChangelogEntry
		var err error
		if path == "Parse" {
			var g changelog.ChangelogEntries
			g, err = changelog.Parse(strings.NewReader(text))
			got = g
			if err != nil && len(g) != 0 {
				c.Cover("outcome:entries-next-to-an-error") // not silent, hence not this property's business (C18 judges it)
			}
		} else {
			got, err = parseOneLoop(text)
		}
		if err != nil {
			c.Cover("outcome:error")
			if !inside {
				c.Failf("%s failed on a prefix that ends between entries (%d complete entries): %v\nprefix: %q", path, k, err, text)
			}
			continue
		}
		c.Cover("outcome:entries")
		want := k
		switch {
		case !inside:
		case onlyFinalNL:
			want = k + 1
		default:
			c.Failf("%s returned %d entries without error for input that ends inside entry %d (silently shortened list)\ninput ends with: %q", path, len(got), k, tailStr(text, 80))
			continue
		}
		if len(got) != want {
			c.Failf("%s returned %d entries without error, %d are complete in the input\ninput ends with: %q", path, len(got), want, tailStr(text, 80))
			continue
		}
		for i := 0; i < want; i++ {
			if diff := diffEntry(got[i], cs.Doc.Entries[i]); diff != "" {
				c.Failf("%s entry %d of a prefix: %s", path, i, diff)
				break
			}
		}
	}
	if inside {
		c.Nontrivial()
	}
}

func tailStr(s string, n int) string {
	if len(s) > n {
		return s[len(s)-n:]
	}
	return s
}

func (p c17) malformed(c *core.C, class, text string) {
	c.Cover("malformed:" + class)
	c.Nontrivial()
	got, err := changelog.Parse(strings.NewReader(text))
	if err == nil {
		c.Failf("Parse accepted a malformed changelog (class %s) and returned %d entries\nchangelog: %q", class, len(got), text)
	} else if len(got) != 0 {
		c.Cover("outcome:entries-next-to-an-error")
	}
	if _, err := parseOneLoop(text); err == nil {
		c.Failf("ParseOne loop accepted a malformed changelog (class %s)\nchangelog: %q", class, text)
	}
}

func (p c17) RunBatch(t *core.T, b core.Batch) {
	r := t.Rand(b.Name, fmt.Sprint(b.Arg))
	switch b.Name {
	case "corpus":
		p.corpusBatch(t, b)
	case "full":
		for i := 0; i < b.N; i++ {
			d := genChangelog(r, 6)
			in, _ := json.Marshal(d)
			t.Case("full", in, func(c *core.C) { p.full(c, d) })
		}
	case "prefix":
		for i := 0; i < b.N; i++ {
			d := genChangelog(r, 3)
			text, _, _ := d.render()
			for pp := 0; pp <= len(text); pp++ {
				cs := c17Prefix{Doc: d, P: pp}
				in, _ := json.Marshal(cs)
				t.Case("prefix", in, func(c *core.C) { p.prefix(c, cs) })
			}
		}
	case "dpkg-legality":
		// generator self-check (thorough): dpkg-parsechangelog must read every generated
		// changelog and agree on count, Source, Version, Distribution, Maintainer and Date
		if !have("dpkg-parsechangelog") {
			t.Cover("dpkg-legality:dpkg-parsechangelog-unavailable")
			return
		}
		for i := 0; i < b.N; i++ {
			d := genChangelog(r, 4)
			text, _, _ := d.render()
			t.Case("dpkg-legality", []byte(text), func(c *core.C) {
				fp := filepath.Join(t.WorkDir, "dpkg-legality.changelog")
				os.WriteFile(fp, []byte(text), 0o644)
				defer os.Remove(fp)
				out, err := exec.Command("dpkg-parsechangelog", "-l", fp, "--all", "--format", "rfc822").Output()
				if err != nil {
					c.Cover("~inconclusive:dpkg-parsechangelog rejects a generated changelog (generator self-check)")
					return
				}
				ref, ok := model.RefRead(string(out))
				if !ok || len(ref) != len(d.Entries) {
					c.Cover("~inconclusive:dpkg-parsechangelog sees a different number of entries than the generator wrote (generator self-check)")
					return
				}
				for k, e := range d.Entries {
					get := func(f string) string { return strings.Join(ref[k].Lines[f], "\n") }
					if get("Source") != e.Source || get("Version") != e.Version || get("Distribution") != strings.Join(e.Dists, " ") || get("Maintainer") != e.Who || !sameDate(get("Date"), e.When) {
						c.Cover("~inconclusive:dpkg-parsechangelog reads an entry differently from the generator's model (generator self-check)")
						t.AddSample("dpkg-disagrees", text, fmt.Sprintf("entry %d: dpkg %q/%q/%q/%q/%q", k, get("Source"), get("Version"), get("Distribution"), get("Maintainer"), get("Date")))
						return
					}
				}
				c.Cover("dpkg-legality:agreed-with-dpkg-parsechangelog")
			})
		}
	case "malformed":
		for i := 0; i < b.N; i++ {
			d := genChangelog(r, 3)
			d.NoFinal = false
			k := r.Intn(len(d.Entries))
			e := &d.Entries[k]
			class := ""
			switch i % 6 {
			case 0:
				class = "version"
				e.Version = r.Pick([]string{"a1.0", "1.0 2", "", "1:", "1_0", "x:1"})
			case 1:
				class = "no-date"
				e.When = ""
			case 2:
				class = "month"
				e.When = strings.Replace(e.When, e.When[8:11], "Foo", 1)
			case 3:
				class = "column0-body"
				e.Body = "\n  * ok\nthis line starts in column 0\n\n"
			case 4:
				class = "no-trailer"
			case 5:
				class = "indented-header"
			}
			text, _, _ := d.render()
			if class == "indented-header" {
				text = strings.Replace(text, e.header(), r.Pick([]string{" ", "  ", "   "})+e.header(), 1)
			}
			if class == "no-trailer" {
				text = strings.Replace(text, e.trailer(), "", 1)
				if k == len(d.Entries)-1 {
					// the last entry simply lacks its trailer: the input ends inside an entry
				}
			}
			t.Case("malformed", []byte(class+"\x1e"+text), func(c *core.C) { p.malformed(c, class, text) })
		}
	}
}

func (p c17) RunCase(t *core.T, kind string, input []byte) {
	switch kind {
	case "full":
		var d clDoc
		if json.Unmarshal(input, &d) == nil {
			t.Case(kind, input, func(c *core.C) { p.full(c, d) })
		}
	case "prefix":
		var cs c17Prefix
		if json.Unmarshal(input, &cs) == nil {
			t.Case(kind, input, func(c *core.C) { p.prefix(c, cs) })
		}
	case "corpus":
		t.Case(kind, input, func(c *core.C) { p.corpusCase(c, t, input) })
	case "malformed":
		parts := strings.SplitN(string(input), "\x1e", 2)
		if len(parts) == 2 {
			t.Case(kind, input, func(c *core.C) { p.malformed(c, parts[0], parts[1]) })
		}
	}
}

var _ = model.Sign
