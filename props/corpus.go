package props

import (
	"os"
	"path/filepath"
	"sort"
	"strings"
	"sync"
)

// Realistic workload shared by several properties: the package database of this machine
// (/var/lib/dpkg/status, /var/lib/dpkg/available) - a few hundred real binary-package stanzas with their
// versions, relationship fields, multi-line descriptions and conffile lists.

var corpusOnce sync.Once
var corpusParas []string

// corpusStanzas returns the stanzas (each ending in "\n", without the separating blank line).
func corpusStanzas() []string {
	corpusOnce.Do(func() {
		for _, f := range []string{"/var/lib/dpkg/status", "/var/lib/dpkg/available"} {
			b, err := os.ReadFile(f)
			if err != nil || len(b) > 64<<20 {
				continue
			}
			for _, p := range strings.Split(string(b), "\n\n") {
				p = strings.Trim(p, "\n")
				if p != "" {
					corpusParas = append(corpusParas, p+"\n")
				}
			}
		}
	})
	return corpusParas
}

// corpusField returns the (unfolded, as the reference reader sees it) values of the named fields of every stanza.
func corpusFieldValues(names ...string) []string {
	want := map[string]bool{}
	for _, n := range names {
		want[n] = true
	}
	var out []string
	for _, p := range corpusStanzas() {
		lines := strings.Split(p, "\n")
		for i := 0; i < len(lines); i++ {
			l := lines[i]
			c := strings.IndexByte(l, ':')
			if c <= 0 || l[0] == ' ' || l[0] == '\t' || !want[l[:c]] {
				continue
			}
			v := strings.TrimSpace(l[c+1:])
			for i+1 < len(lines) && len(lines[i+1]) > 0 && (lines[i+1][0] == ' ' || lines[i+1][0] == '\t') {
				i++
				v += "\n" + strings.TrimSpace(lines[i])
			}
			out = append(out, v)
		}
	}
	return out
}

// corpusDep5 returns the machine-readable (DEP-5) copyright files installed on this machine: real deb822 documents
// with many paragraphs and long multi-line fields (licence texts with " ." lines).
func corpusDep5() []string {
	dep5Once.Do(func() {
		files, _ := filepath.Glob("/usr/share/doc/*/copyright")
		sort.Strings(files)
		for _, f := range files {
			b, err := os.ReadFile(f)
			if err == nil && len(b) < 1<<20 && strings.HasPrefix(string(b), "Format:") {
				dep5Docs = append(dep5Docs, string(b))
			}
		}
	})
	return dep5Docs
}

var dep5Once sync.Once
var dep5Docs []string
