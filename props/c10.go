package props

import (
	"bufio"
	"encoding/json"
	"fmt"
	"os"
	"os/exec"
	"path/filepath"
	"reflect"
	"strings"

	"pault.ag/go/debian/control"
	"pault.ag/go/debian/deb"
	"pault.ag/go/debian/dependency"

	"verif/internal/core"
	"verif/internal/gen"
	"verif/internal/model"
)

// C10 — typed Debian documents decode to exactly the fields written in them.
type c10 struct{}

func init() { core.Register(c10{}) }

func (c10) ID() string    { return "C10" }
func (c10) Level() string { return "exploration" }
func (c10) Rule() string {
	return "for each typed document kind (.dsc, .changes, debian/control source+binary paragraphs, Packages, Sources, DEBIAN/control, a struct embedding BestChecksums) a model is drawn (every field the struct knows, random presence of optional ones, list lengths 0..6, single-line and folded comma lists, multi-binary sources, 0..3 uploaders, 1..5 files per checksum block, dependency fields from the C04 generator, architectures incl. all/any/wildcards/two-part names), rendered in the real Debian layout and parsed by the typed parser; the result is compared by reflection over every exported Go field with an independent denotation (Debian field -> expected Go value), the embedded Paragraph with the reference reader, and the accessors (Maintainers, HasArchAll, AbsFiles, DebianSource, GetDSC, SourcePackage, Get* dependency accessors, Checksums, SourceName) with the model. Non-trivial = document with >= 1 list field of >= 2 elements or a folded field; distinct by hash of the text."
}
func (c10) Assumptions() []string {
	return []string{"string-typed fields are expected verbatim as the paragraph reader returns them (logical lines joined by newlines)", "Packages' tag field is named 'Tag' as in the Debian archive", "folded space-separated lists are not generated (Debian tools do not fold them)"}
}

var c10Kinds = []string{"dsc", "changes", "control", "packages", "sources", "debcontrol", "best"}

func (c10) Batches(tier string, seed uint64) []core.Batch {
	var b []core.Batch
	for _, k := range c10Kinds {
		b = append(b, spread(k, 3, tierN(tier, 900, 5000))...)
	}
	if tier == "thorough" {
		b = append(b, spread("dpkg-source", 4, 12)...)
	}
	return append(b, conc(tierN(tier, 40, 300), "packages", "sources", "best")...)
}

// every exported field of every typed struct must have been compared.
func (c10) Mandatory(tier string) []string {
	m := []string{"layout:folded-comma-list", "layout:single-line-comma-list", "layout:folded-dependency", "layout:checksum-block", "layout:blanks-before-separator", "size:>=2^31", "size:int-field>=2^31", "entry:ParseDscFile-relative-path", "entry:ParseChangesFile", "entry:ParseControlFile", "entry:ParseDscFile-via-symlink", "entry:ParseChangesFile-via-symlink", "entry:ParseControlFile-via-symlink", "reader:bufio-smaller-than-4096", "accessor:Maintainers", "accessor:value-unchanged-by-accessors", "accessor:HasArchAll:true",
		"accessor:HasArchAll:false", "accessor:AbsFiles", "accessor:DebianSource:found", "accessor:DebianSource:none", "accessor:GetDSC", "accessor:SourcePackage:binnmu",
		"accessor:SourcePackage:default", "accessor:GetDepends", "accessor:GetBuildDepends", "accessor:Checksums:sha256", "accessor:Checksums:sha512", "accessor:Checksums:none",
		"accessor:SourceName", "accessor:ByHashPath", "arch:two-part", "arch:all", "arch:wildcard"}
	for _, t := range []interface{}{control.DSC{}, control.Changes{}, control.SourceParagraph{}, control.BinaryParagraph{}, control.BinaryIndex{}, control.SourceIndex{}, deb.Control{}, control.BestChecksums{}} {
		rt := reflect.TypeOf(t)
		for i := 0; i < rt.NumField(); i++ {
			f := rt.Field(i)
			if f.Anonymous || f.PkgPath != "" {
				continue
			}
			m = append(m, "field:"+rt.Name()+"."+f.Name)
		}
	}
	return m
}

// ---- document builder ----

type c10Doc struct {
	sb     strings.Builder
	want   map[string]interface{} // Go field name -> expected value
	folded bool
	multi  bool
	spaced bool
	big    bool
}

func newDoc() *c10Doc { return &c10Doc{want: map[string]interface{}{}} }

type wantDep struct{ ast model.MDep }

func (d *c10Doc) raw(name, first string, conts ...string) {
	d.sb.WriteString(name + ":")
	if first != "" {
		d.sb.WriteString(" " + first)
	}
	d.sb.WriteString("\n")
	for _, c := range conts {
		if c == "" {
			c = "."
		}
		d.sb.WriteString(" " + c + "\n")
	}
}

func mlValue(first string, conts []string) string {
	if len(conts) == 0 {
		return first
	}
	v := ""
	if first != "" {
		v = first + "\n"
	}
	return v + strings.Join(conts, "\n") + "\n"
}

func (d *c10Doc) scalar(r *core.Rand, name, gofield, val string) {
	d.raw(name, val)
	d.want[gofield] = val
}

func (d *c10Doc) multiline(r *core.Rand, name, gofield string) {
	first := gen.ValueLine(r)
	var conts []string
	for k := r.Range(1, 4); k > 0; k-- {
		switch r.Intn(4) {
		case 0:
			conts = append(conts, "")
		case 1:
			conts = append(conts, "  * "+gen.ValueLine(r))
		default:
			conts = append(conts, gen.ValueLine(r))
		}
	}
	if r.Chance(1, 3) {
		first = "" // e.g. Changes: starts on the next line
		if conts[0] == "" || strings.HasPrefix(conts[0], " ") {
			conts[0] = gen.ValueLine(r)
		}
	}
	d.raw(name, first, conts...)
	d.want[gofield] = mlValue(first, conts)
}

// list with separator: single line or folded after the separator.
func (d *c10Doc) list(r *core.Rand, name, gofield string, elems []string, sep string, mayFold bool) {
	if len(elems) >= 2 {
		d.multi = true
	}
	if len(elems) == 0 {
		d.want[gofield] = []string{}
		return
	}
	if mayFold && len(elems) >= 2 && r.Bool() {
		d.folded = true
		var conts []string
		first := elems[0] + sep
		cur := ""
		for i, e := range elems[1:] {
			cur += e
			if i < len(elems)-2 {
				cur += sep
			}
			if r.Bool() || i == len(elems)-2 {
				conts = append(conts, cur)
				cur = ""
			} else {
				cur += " "
			}
		}
		if r.Chance(1, 4) { // start on the next line
			conts = append([]string{strings.TrimSuffix(first, sep) + sep}, conts...)
			first = ""
		} else if r.Chance(1, 4) && sep != " " { // fold before the separator instead of after it
			first = strings.TrimSuffix(first, sep)
			conts[0] = sep + " " + conts[0]
			d.spaced = true
		}
		d.raw(name, first, conts...)
	} else {
		j := sep + " "
		if sep == " " {
			j = " "
		} else if r.Chance(1, 5) { // blanks around the separator are insignificant
			j = r.Pick([]string{" " + sep + " ", " " + sep, "  " + sep + "  ", sep})
			d.spaced = true
		}
		d.raw(name, strings.Join(elems, j))
	}
	d.want[gofield] = append([]string{}, elems...)
}

func archVal(n string) dependency.Arch {
	a, _ := mkArch(n, "literal")
	return a
}

func (d *c10Doc) archList(r *core.Rand, name, gofield string, names []string) {
	d.raw(name, strings.Join(names, " "))
	out := []dependency.Arch{}
	for _, n := range names {
		out = append(out, archVal(n))
	}
	d.want[gofield] = out
}

func (d *c10Doc) dep(r *core.Rand, name, gofield string) model.MDep {
	ast := gen.Dep(r, 5, 3, r.Bool())
	var text string
	if r.Chance(1, 4) {
		// folds at arbitrary interior token boundaries (inside brackets too): every one is a
		// continuation line, which reaches the dependency parser as a bare newline
		d.folded = true
		text = ast.Render(func(slot string) string {
			if slot == model.SlStart || slot == model.SlEnd || slot == model.SlNameEnd {
				return ""
			}
			if r.Chance(1, 5) {
				return "\n"
			}
			return model.Canonical(slot)
		}, false)
		text = strings.TrimRight(text, "\n")
	} else if r.Bool() && len(ast) > 1 {
		d.folded = true
		text = ast.Render(func(slot string) string {
			if slot == model.SlAfterComma {
				return "\n"
			}
			return model.Canonical(slot)
		}, false)
	} else {
		text = ast.Render(model.Canonical, r.Chance(1, 8))
	}
	lines := strings.Split(text, "\n")
	d.raw(name, lines[0], lines[1:]...)
	if gofield != "" {
		d.want[gofield] = wantDep{ast}
	}
	if len(ast) >= 2 {
		d.multi = true
	}
	return ast
}

type fileEnt struct {
	Hash, Name string
	Size       int64
}

func genFiles(r *core.Rand, base string) []string {
	n := r.Range(1, 5)
	names := []string{base + ".dsc", base + ".orig.tar.gz", base + ".debian.tar.xz", base + ".orig-extra.tar.bz2", base + ".tar.xz", base + "_amd64.deb"}
	perm := r.Perm(len(names))
	var out []string
	for _, i := range perm[:n] {
		out = append(out, names[i])
	}
	return out
}

// shortName keeps generated file names below the file system's name limit.
func shortName(s string) string {
	if len(s) > 40 {
		return s[:40]
	}
	return s
}

func hexHash(r *core.Rand, n int) string { return r.Str("0123456789abcdef", n) }

// bigSize: file sizes up to the int64 range (files over 2 GiB are common).
func bigSize(r *core.Rand) int64 {
	switch r.Intn(6) {
	case 0:
		return int64(r.U64() >> uint(1+r.Intn(30)))
	case 1:
		return int64(r.Pick3(1<<31-1, 1<<31, 1<<32, 1<<32+1, 1<<40))
	}
	return int64(r.Intn(1 << 24))
}

// checksum block: first line empty, one entry per continuation line.
func (d *c10Doc) sums(r *core.Rand, name, gofield, algo string, hexlen int, files []string) []control.FileHash {
	var conts []string
	var fhs []control.FileHash
	for _, f := range files {
		fh := control.FileHash{Algorithm: algo, Hash: hexHash(r, hexlen), Size: bigSize(r), Filename: f}
		switch algo {
		case "sha256":
			fh.ByHash = "SHA256"
		case "sha512":
			fh.ByHash = "SHA512"
		}
		fhs = append(fhs, fh)
		if fh.Size >= 1<<31 {
			d.big = true
		}
		conts = append(conts, fmt.Sprintf("%s %d %s", fh.Hash, fh.Size, fh.Filename))
	}
	d.raw(name, "", conts...)
	d.multi = d.multi || len(files) >= 2
	switch algo {
	case "md5":
		out := []control.MD5FileHash{}
		for _, f := range fhs {
			out = append(out, control.MD5FileHash{FileHash: f})
		}
		d.want[gofield] = out
	case "sha1":
		out := []control.SHA1FileHash{}
		for _, f := range fhs {
			out = append(out, control.SHA1FileHash{FileHash: f})
		}
		d.want[gofield] = out
	case "sha256":
		out := []control.SHA256FileHash{}
		for _, f := range fhs {
			out = append(out, control.SHA256FileHash{FileHash: f})
		}
		d.want[gofield] = out
	case "sha512":
		d.want[gofield] = fhs // compared on the embedded FileHash values
	}
	return fhs
}

func person(r *core.Rand) string {
	return r.Pick([]string{"Paul", "Ana María", "J. R.", "Zoë", "O'Neil"}) + " " + r.Pick([]string{"Tagliamonte", "de la Cruz", "Doe", "van Rossum"}) + " <" + word(r) + "@" + r.Pick([]string{"debian.org", "example.com"}) + ">"
}

func pick(r *core.Rand, n int, pool []string) []string {
	perm := r.Perm(len(pool))
	if n > len(pool) {
		n = len(pool)
	}
	out := make([]string, n)
	for i := 0; i < n; i++ {
		out[i] = pool[perm[i]]
	}
	return out
}

var c10Archs = []string{"amd64", "i386", "arm64", "all", "any", "linux-any", "kfreebsd-amd64", "hurd-i386", "any-amd64", "musl-linux-arm64", "armhf"}

// ---- comparison ----

func normalizeNil(v interface{}) interface{} {
	rv := reflect.ValueOf(v)
	if rv.Kind() == reflect.Slice && rv.Len() == 0 {
		return reflect.MakeSlice(rv.Type(), 0, 0).Interface()
	}
	return v
}

// compareStruct walks every exported field of got and compares it with want.
func compareStruct(c *core.C, typeName string, got interface{}, want map[string]interface{}, text string) {
	rv := reflect.ValueOf(got)
	rt := rv.Type()
	seen := map[string]bool{}
	for i := 0; i < rt.NumField(); i++ {
		f := rt.Field(i)
		if f.Anonymous || f.PkgPath != "" {
			continue
		}
		seen[f.Name] = true
		w, ok := want[f.Name]
		gv := rv.Field(i).Interface()
		if !ok {
			// not written in this document: expect the zero value
			if !rv.Field(i).IsZero() && !(rv.Field(i).Kind() == reflect.Slice && rv.Field(i).Len() == 0) && !isEmptyDep(gv) {
				c.Failf("%s.%s = %+v although the document has no such field\ndocument: %q", typeName, f.Name, gv, text)
			}
			continue
		}
		c.Cover("field:" + typeName + "." + f.Name)
		switch wv := w.(type) {
		case wantDep:
			gd, ok := gv.(dependency.Dependency)
			if !ok {
				c.Failf("%s.%s is not a dependency.Dependency", typeName, f.Name)
				continue
			}
			if diff := diffDep(&gd, wv.ast); diff != "" {
				c.Failf("%s.%s: %s\ndocument: %q", typeName, f.Name, diff, text)
			}
		case []control.FileHash: // sha512 list: compare embedded FileHash values
			var gl []control.FileHash
			gs := rv.Field(i)
			for k := 0; k < gs.Len(); k++ {
				fh := gs.Index(k).FieldByName("FileHash")
				if fh.IsValid() {
					gl = append(gl, fh.Interface().(control.FileHash))
				}
			}
			if !reflect.DeepEqual(normalizeNil(gl), normalizeNil(wv)) {
				c.Failf("%s.%s = %+v, the document says %+v\ndocument: %q", typeName, f.Name, gl, wv, text)
			}
		default:
			if !reflect.DeepEqual(normalizeNil(gv), normalizeNil(w)) {
				c.Failf("%s.%s = %#v, the document says %#v\ndocument: %q", typeName, f.Name, gv, w, text)
			}
		}
	}
	for k := range want {
		if !seen[k] {
			c.Failf("%s has no exported field %s any more (the document field cannot be delivered)", typeName, k)
		}
	}
}

func isEmptyDep(v interface{}) bool {
	d, ok := v.(dependency.Dependency)
	return ok && len(d.Relations) == 0
}

func comparePara(c *core.C, what string, got control.Paragraph, text string, idx int) {
	ref, ok := model.RefRead(text)
	if !ok || idx >= len(ref) {
		c.Failf("harness self-check: reference reader rejects generated %s document %q", what, text)
		return
	}
	if diff := diffParas([]control.Paragraph{got}, ref[idx:idx+1]); diff != "" {
		c.Failf("%s embedded Paragraph: %s\ndocument: %q", what, diff, text)
	}
}

// bufReader: the typed parsers take a *bufio.Reader from the caller; its size is the caller's business.
func bufReader(r *core.Rand, c *core.C, text string) *bufio.Reader {
	size := r.Pick3(4096, 4096, 16, 100, 512, 4095, 65536)
	if size < 4096 {
		c.Cover("reader:bufio-smaller-than-4096")
	}
	return bufio.NewReaderSize(strings.NewReader(text), size)
}

// ---- per-kind generators ----

type c10Case struct {
	Kind  string `json:"kind"`
	Seed  uint64 `json:"seed"`
	Steer []byte `json:"steer,omitempty"` // thorough tier: generator choices dictated by the fuzzer
}

func (p c10) run(c *core.C, t *core.T, cs c10Case) {
	r := core.NewRand(cs.Seed, "c10", cs.Kind)
	if len(cs.Steer) > 0 {
		r = core.NewSteered(cs.Steer, "c10", cs.Kind)
	}
	p.history(c, cs.Seed)
	switch cs.Kind {
	case "dsc":
		p.dsc(c, t, r)
	case "changes":
		p.changes(c, t, r)
	case "control":
		p.control(c, r)
	case "packages":
		p.packages(c, r)
	case "sources":
		p.sources(c, r)
	case "debcontrol":
		p.debcontrol(c, r)
	case "best":
		p.best(c, r)
	case "dpkg-source":
		p.dpkgSource(c, t, r)
	}
}

// history: what a document decodes to must not depend on which kinds of document the process decoded before.
// The same field name is written differently in different kinds (Binary: blanks in a .changes, commas in a .dsc
// and in Sources; Architecture: a list in a .dsc, one value in Packages), so every case first decodes one tiny
// document of three kinds in an order taken from the seed - in a fresh worker process these are the first
// documents the library sees - and each must come out as written.
func (p c10) history(c *core.C, seed uint64) {
	const sum = "d41d8cd98f00b204e9800998ecf8427e"
	docs := [3]func() string{
		func() string {
			text := "Format: 1.8\nSource: hist\nBinary: hist-a hist-b hist-c\nArchitecture: source amd64 all\nVersion: 1.0-1\nFiles:\n " + sum + " 0 utils optional hist_1.0-1.dsc\n"
			got, err := control.ParseChanges(bufio.NewReader(strings.NewReader(text)), "/h/hist_1.0-1_amd64.changes")
			if err != nil {
				return fmt.Sprintf("ParseChanges(%q): %v", text, err)
			}
			if !reflect.DeepEqual(got.Binaries, []string{"hist-a", "hist-b", "hist-c"}) || len(got.Architectures) != 3 || len(got.Files) != 1 || got.Files[0].Filename != "hist_1.0-1.dsc" {
				return fmt.Sprintf("ParseChanges(%q): Binaries %q, %d architectures, Files %+v", text, got.Binaries, len(got.Architectures), got.Files)
			}
			return ""
		},
		func() string {
			text := "Format: 3.0 (quilt)\nSource: hist\nBinary: hist-a, hist-b,\n hist-c\nArchitecture: any all\nVersion: 1.0-1\nUploaders: A <a@example.org>, B <b@example.org>\nFiles:\n " + sum + " 0 hist_1.0.orig.tar.gz\n"
			got, err := control.ParseDsc(bufio.NewReader(strings.NewReader(text)), "/h/hist_1.0-1.dsc")
			if err != nil {
				return fmt.Sprintf("ParseDsc(%q): %v", text, err)
			}
			if !reflect.DeepEqual(got.Binaries, []string{"hist-a", "hist-b", "hist-c"}) || len(got.Architectures) != 2 || !reflect.DeepEqual(got.Uploaders, []string{"A <a@example.org>", "B <b@example.org>"}) || len(got.Files) != 1 || got.Files[0].Filename != "hist_1.0.orig.tar.gz" {
				return fmt.Sprintf("ParseDsc(%q): Binaries %q, %d architectures, Uploaders %q, Files %+v", text, got.Binaries, len(got.Architectures), got.Uploaders, got.Files)
			}
			return ""
		},
		func() string {
			text := "Package: hist\nBinary: hist-a, hist-b\nVersion: 1.0-1\nArchitecture: any all\nDirectory: pool/main/h/hist\nFiles:\n " + sum + " 0 hist_1.0-1.dsc\n"
			got, err := control.ParseSourceIndex(bufio.NewReader(strings.NewReader(text)))
			if err != nil || len(got) != 1 {
				return fmt.Sprintf("ParseSourceIndex(%q): %d entries, error %v", text, len(got), err)
			}
			if !reflect.DeepEqual(got[0].Binaries, []string{"hist-a", "hist-b"}) || len(got[0].Architecture) != 2 || len(got[0].Files) != 1 || got[0].Files[0].Filename != "hist_1.0-1.dsc" {
				return fmt.Sprintf("ParseSourceIndex(%q): Binaries %q, Architecture %v, Files %+v", text, got[0].Binaries, got[0].Architecture, got[0].Files)
			}
			return ""
		},
	}
	orders := [6][3]int{{0, 1, 2}, {0, 2, 1}, {1, 0, 2}, {1, 2, 0}, {2, 0, 1}, {2, 1, 0}}
	o := orders[seed%6]
	for _, k := range o {
		if msg := docs[k](); msg != "" {
			c.Failf("%s (the %s document of the three decoded, in the order %v, before the case proper; each decodes correctly in a fresh process)", msg, []string{"first", "second", "third"}[posOf(o[:], k)], o)
		}
	}
	c.Cover(fmt.Sprintf("history:kinds-decoded-in-order-%d%d%d", o[0], o[1], o[2]))
}

func posOf(l []int, v int) int {
	for i, x := range l {
		if x == v {
			return i
		}
	}
	return -1
}

// dpkgSource (thorough): a source tree is written from a model and the REAL dpkg-source -b
// produces the .dsc; ParseDscFile and ParseControlFile must return the model.
func (p c10) dpkgSource(c *core.C, t *core.T, r *core.Rand) {
	if !have("dpkg-source") {
		c.Cover("dpkg-source:unavailable")
		return
	}
	src := "vsrc" + r.Str("abcdefghij0123456789", r.Range(2, 8))
	ver := fmt.Sprintf("%d.%d.%d", r.Intn(9), r.Intn(20), r.Intn(20))
	if r.Bool() {
		ver = fmt.Sprintf("%d:%s", 1+r.Intn(3), ver)
	}
	maint := person(r)
	var uploaders []string
	for k := r.Range(0, 3); k > 0; k-- {
		uploaders = append(uploaders, person(r))
	}
	type bin struct{ name, arch string }
	var bins []bin
	for k := r.Range(1, 6); k > 0; k-- {
		bins = append(bins, bin{src + "-" + r.Str("abcdefgh", r.Range(1, 24)), r.Pick([]string{"any", "all", "linux-any", "amd64 i386", "any-amd64"})})
	}
	// build dependencies dpkg accepts: real architectures, no substvars
	var ast model.MDep
	for k := r.Range(1, 5); k > 0; k-- {
		var rel model.MRel
		for a := r.Range(1, 2); a > 0; a-- {
			// distinct names: dpkg-source simplifies repeated / implied relations away
			ps := model.MPoss{Name: fmt.Sprintf("%s%d", r.Pick([]string{"debhelper", "libfoo-dev", "gcc-", "python3-all", "pkg-config", "libbar"}), len(ast)*10+len(rel))}
			if r.Bool() {
				ps.Op, ps.Ver = r.Pick(gen.Ops), fmt.Sprintf("%d.%d~rc%d", r.Intn(9), r.Intn(9), r.Intn(3))
			}
			if r.Chance(1, 3) {
				ps.Archs, ps.ArchNot = []string{r.Pick([]string{"linux-any", "amd64", "kfreebsd-any"})}, r.Bool()
			}
			if r.Chance(1, 3) {
				ps.Profiles = [][]model.MStage{{{Name: "nocheck", Not: r.Bool()}}}
			}
			if r.Chance(1, 4) {
				ps.Qual = r.Pick([]string{"native", "any"})
			}
			ps.Normalise()
			rel = append(rel, ps)
		}
		ast = append(ast, rel)
	}
	root := filepath.Join(t.WorkDir, "c10src")
	os.RemoveAll(root)
	defer os.RemoveAll(root)
	upstream := ver
	if i := strings.IndexByte(ver, ':'); i >= 0 {
		upstream = ver[i+1:]
	}
	tree := filepath.Join(root, src+"-"+upstream)
	os.MkdirAll(filepath.Join(tree, "debian", "source"), 0o755)
	var ctl strings.Builder
	ctl.WriteString("Source: " + src + "\nSection: misc\nPriority: optional\nMaintainer: " + maint + "\n")
	if len(uploaders) > 0 {
		ctl.WriteString("Uploaders: " + strings.Join(uploaders, ",\n ") + "\n")
	}
	ctl.WriteString("Build-Depends: " + strings.ReplaceAll(ast.Render(func(slot string) string {
		if slot == model.SlAfterComma {
			return "\n"
		}
		return model.Canonical(slot)
	}, false), "\n", "\n ") + "\nStandards-Version: 4.6.2\nHomepage: https://example.org/" + src + "\n")
	for _, b := range bins {
		ctl.WriteString("\nPackage: " + b.name + "\nArchitecture: " + b.arch + "\nDescription: " + b.name + "\n long text\n")
	}
	os.WriteFile(filepath.Join(tree, "debian", "control"), []byte(ctl.String()), 0o644)
	os.WriteFile(filepath.Join(tree, "debian", "changelog"), []byte(fmt.Sprintf("%s (%s) unstable; urgency=low\n\n  * x\n\n -- %s  Mon, 02 Jan 2006 15:04:05 +0000\n", src, ver, maint)), 0o644)
	os.WriteFile(filepath.Join(tree, "debian", "source", "format"), []byte("3.0 (native)\n"), 0o644)
	os.WriteFile(filepath.Join(tree, "debian", "rules"), []byte("#!/usr/bin/make -f\n%:\n\ttrue\n"), 0o755)
	os.WriteFile(filepath.Join(tree, "payload"), r.Bytes(r.Range(10, 3000)), 0o644)
	cmd := exec.Command("dpkg-source", "-b", filepath.Base(tree))
	cmd.Dir = root
	if out, err := cmd.CombinedOutput(); err != nil {
		c.Cover("~inconclusive:dpkg-source rejects a generated source tree (generator self-check)")
		_ = out
		return
	}
	dscPath := filepath.Join(root, src+"_"+upstream+".dsc")
	d, err := control.ParseDscFile(dscPath)
	if err != nil || d == nil {
		raw, _ := os.ReadFile(dscPath)
		c.Failf("ParseDscFile failed on a .dsc written by dpkg-source: %v\n%s", err, raw)
		return
	}
	raw, _ := os.ReadFile(dscPath)
	text := string(raw)
	var names []string
	hasAll, hasAny := false, false
	for _, b := range bins {
		names = append(names, b.name)
		if b.arch == "all" {
			hasAll = true
		} else {
			hasAny = true
		}
	}
	if d.Source != src || d.Version != libVer(splitText(ver)) || d.Maintainer != maint || d.Format != "3.0 (native)" || d.StandardsVersion != "4.6.2" || d.Homepage != "https://example.org/"+src {
		c.Failf("real .dsc: scalar fields differ from the source tree: %+v\n%s", *d, text)
	}
	if !eqLines(d.Binaries, names) {
		c.Failf("real .dsc: Binaries = %q, the source tree builds %q\n%s", d.Binaries, names, text)
	}
	if !eqLines(d.Uploaders, uploaders) && !(len(d.Uploaders) == 0 && len(uploaders) == 0) {
		c.Failf("real .dsc: Uploaders = %q, debian/control lists %q\n%s", d.Uploaders, uploaders, text)
	}
	if diff := diffDep(&d.BuildDepends, ast); diff != "" {
		c.Failf("real .dsc: Build-Depends: %s\n%s", diff, text)
	}
	if d.HasArchAll() != hasAll {
		c.Failf("real .dsc: HasArchAll() = %v, binaries %v\n%s", d.HasArchAll(), bins, text)
	}
	_ = hasAny
	tarName := src + "_" + upstream + ".tar.xz"
	tb, terr := os.ReadFile(filepath.Join(root, tarName))
	if terr == nil {
		for what, fh := range map[string][]control.FileHash{"Files": filesOf(d.Files), "Checksums-Sha1": sha1Of(d.ChecksumsSha1), "Checksums-Sha256": sha256Of(d.ChecksumsSha256)} {
			algo := map[string]string{"Files": "md5", "Checksums-Sha1": "sha1", "Checksums-Sha256": "sha256"}[what]
			if len(fh) != 1 || fh[0].Filename != tarName || fh[0].Size != int64(len(tb)) || fh[0].Hash != fmt.Sprintf("%x", digest(algo, tb)) || fh[0].Algorithm != algo {
				c.Failf("real .dsc: %s = %+v; the tarball %s has %d bytes, %s %x", what, fh, tarName, len(tb), algo, digest(algo, tb))
			}
		}
	}
	// the same tree's debian/control through ParseControlFile
	ct, err := control.ParseControlFile(filepath.Join(tree, "debian", "control"))
	if err != nil || ct == nil {
		c.Failf("ParseControlFile failed on the generated debian/control: %v", err)
	} else {
		if ct.Source.Source != src || ct.Source.Maintainer != maint || !(eqLines(ct.Source.Uploaders, uploaders) || len(uploaders) == 0 && len(ct.Source.Uploaders) == 0) || len(ct.Binaries) != len(bins) {
			c.Failf("debian/control of the same tree: %+v", ct.Source)
		}
		if diff := diffDep(&ct.Source.BuildDepends, ast); diff != "" {
			c.Failf("debian/control Build-Depends: %s", diff)
		}
	}
	c.Cover("dpkg-source:real-dsc-compared")
	c.Nontrivial()
}

func filesOf(in []control.MD5FileHash) []control.FileHash {
	var o []control.FileHash
	for _, f := range in {
		o = append(o, f.FileHash)
	}
	return o
}
func sha1Of(in []control.SHA1FileHash) []control.FileHash {
	var o []control.FileHash
	for _, f := range in {
		o = append(o, f.FileHash)
	}
	return o
}
func sha256Of(in []control.SHA256FileHash) []control.FileHash {
	var o []control.FileHash
	for _, f := range in {
		o = append(o, f.FileHash)
	}
	return o
}

func coverLayout(c *core.C, d *c10Doc) {
	if d.spaced {
		c.Cover("layout:blanks-before-separator")
	}
	if d.big {
		c.Cover("size:>=2^31")
	}
	if d.folded {
		c.Cover("layout:folded-comma-list")
		c.Cover("layout:folded-dependency")
	} else {
		c.Cover("layout:single-line-comma-list")
	}
	if d.folded || d.multi {
		c.Nontrivial()
	}
}

func coverArchs(c *core.C, names []string) {
	for _, n := range names {
		m, _ := model.DenoteArch(n)
		switch {
		case m.All:
			c.Cover("arch:all")
		case m.Wildcard():
			c.Cover("arch:wildcard")
		case strings.Count(n, "-") == 1:
			c.Cover("arch:two-part")
		}
	}
}

func (p c10) genDSC(r *core.Rand, d *c10Doc) (src string, binaries, archs, uploaders, files []string, maint string) {
	src = gen.PkgName(r)
	ver := gen.Version(r)
	d.scalar(r, "Format", "Format", r.Pick([]string{"3.0 (quilt)", "1.0", "3.0 (native)"}))
	d.scalar(r, "Source", "Source", src)
	binaries = []string{src}
	for k := r.Range(0, 5); k > 0; k-- {
		binaries = append(binaries, src+"-"+word(r))
	}
	d.list(r, "Binary", "Binaries", binaries, ",", true)
	archs = pick(r, r.Range(1, 3), c10Archs)
	d.archList(r, "Architecture", "Architectures", archs)
	d.raw("Version", ver.Text)
	d.want["Version"] = libVer(ver.V)
	if r.Bool() {
		d.scalar(r, "Origin", "Origin", r.Pick([]string{"debian", "ubuntu"}))
	}
	maint = person(r)
	d.scalar(r, "Maintainer", "Maintainer", maint)
	for k := r.Range(0, 3); k > 0; k-- {
		uploaders = append(uploaders, person(r))
	}
	if len(uploaders) > 0 {
		d.list(r, "Uploaders", "Uploaders", uploaders, ",", true)
	}
	if r.Bool() {
		d.scalar(r, "Homepage", "Homepage", "https://example.org/"+src)
	}
	if r.Chance(3, 4) {
		d.scalar(r, "Standards-Version", "StandardsVersion", r.Pick([]string{"3.9.3", "4.6.2", "4.1.0.1"}))
	}
	if r.Chance(3, 4) {
		d.dep(r, "Build-Depends", "BuildDepends")
	}
	if r.Chance(1, 3) {
		d.dep(r, "Build-Depends-Arch", "BuildDependsArch")
	}
	if r.Chance(1, 3) {
		d.dep(r, "Build-Depends-Indep", "BuildDependsIndep")
	}
	base := shortName(src) + "_" + shortName(strings.ReplaceAll(ver.V.Upstream, ":", ""))
	files = genFiles(r, base)
	if r.Chance(1, 4) { // no .debian. member
		var keep []string
		for _, f := range files {
			if !strings.Contains(f, ".debian.") {
				keep = append(keep, f)
			}
		}
		if len(keep) > 0 {
			files = keep
		}
	}
	if r.Chance(3, 4) {
		d.sums(r, "Checksums-Sha1", "ChecksumsSha1", "sha1", 40, files)
	}
	if r.Chance(3, 4) {
		d.sums(r, "Checksums-Sha256", "ChecksumsSha256", "sha256", 64, files)
	}
	d.sums(r, "Files", "Files", "md5", 32, files)
	return
}

func (p c10) dsc(c *core.C, t *core.T, r *core.Rand) {
	d := newDoc()
	_, _, archs, uploaders, files, maint := p.genDSC(r, d)
	text := d.sb.String()
	path := "/some/where/" + r.Pick([]string{"x.dsc", "sub/dir/y.dsc"})
	d.want["Filename"] = path
	got, err := control.ParseDsc(bufReader(r, c, text), path)
	if err != nil || got == nil {
		c.Failf("ParseDsc failed on a well-formed .dsc: %v\ndocument: %q", err, text)
		return
	}
	compareStruct(c, "DSC", *got, d.want, text)
	comparePara(c, "DSC", got.Paragraph, text, 0)
	// the file-based entry point, given a RELATIVE path: Filename (and so AbsFiles) must not depend on the working directory
	{
		dir := filepath.Join(t.WorkDir, "c10dsc", "sub")
		os.MkdirAll(dir, 0o755)
		fp := filepath.Join(dir, "rel.dsc")
		os.WriteFile(fp, []byte(text), 0o644)
		old, _ := os.Getwd()
		if os.Chdir(filepath.Dir(dir)) == nil {
			gf, err := control.ParseDscFile(filepath.Join("sub", "rel.dsc"))
			os.Chdir(old)
			if err != nil || gf == nil {
				c.Failf("ParseDscFile(relative path) failed: %v", err)
			} else {
				if gf.Filename != fp {
					c.Failf("ParseDscFile(\"sub/rel.dsc\") in %s: Filename = %q, want the absolute path %q", filepath.Dir(dir), gf.Filename, fp)
				}
				w2 := map[string]interface{}{}
				for k, v := range d.want {
					w2[k] = v
				}
				w2["Filename"] = fp
				compareStruct(c, "DSC", *gf, w2, text)
				for i, f := range gf.AbsFiles() {
					if i < len(files) && filepath.Clean(f.Filename) != filepath.Join(dir, files[i]) {
						c.Failf("ParseDscFile(relative).AbsFiles()[%d] = %q, want %q", i, f.Filename, filepath.Join(dir, files[i]))
					}
				}
				c.Cover("entry:ParseDscFile-relative-path")
			}
		}
		// ... and through a symbolic link that lives in another directory: Filename and AbsFiles() follow the path
		// the caller gave, not the link's target
		ldir := filepath.Join(t.WorkDir, "c10dsc", "links")
		os.MkdirAll(ldir, 0o755)
		lp := filepath.Join(ldir, "rel.dsc")
		os.Remove(lp)
		if os.Symlink(fp, lp) == nil {
			gl, err := control.ParseDscFile(lp)
			if err != nil || gl == nil {
				c.Failf("ParseDscFile through a symbolic link failed: %v", err)
			} else {
				if gl.Filename != lp {
					c.Failf("ParseDscFile(%q) (a symbolic link to %q): Filename = %q", lp, fp, gl.Filename)
				}
				for i, f := range gl.AbsFiles() {
					if i < len(files) && filepath.Clean(f.Filename) != filepath.Join(ldir, files[i]) {
						c.Failf("ParseDscFile(symbolic link).AbsFiles()[%d] = %q, want %q (next to the path that was given)", i, f.Filename, filepath.Join(ldir, files[i]))
					}
				}
				w3 := map[string]interface{}{}
				for k, v := range d.want {
					w3[k] = v
				}
				w3["Filename"] = lp
				compareStruct(c, "DSC", *gl, w3, text)
				c.Cover("entry:ParseDscFile-via-symlink")
			}
			os.Remove(lp)
		}
		os.Remove(fp)
	}
	c.Cover("layout:checksum-block")
	coverLayout(c, d)
	coverArchs(c, archs)
	// accessors
	wantM := append([]string{maint}, uploaders...)
	if gm := got.Maintainers(); !eqLines(gm, wantM) {
		c.Failf("DSC.Maintainers() = %q, the document says %q\ndocument: %q", gm, wantM, text)
	}
	c.Cover("accessor:Maintainers")
	hasAll := false
	for _, a := range archs {
		if a == "all" {
			hasAll = true
		}
	}
	if got.HasArchAll() != hasAll {
		c.Failf("DSC.HasArchAll() = %v for Architecture %q", got.HasArchAll(), archs)
	}
	c.Cover(fmt.Sprintf("accessor:HasArchAll:%v", hasAll))
	abs := got.AbsFiles()
	if again := got.AbsFiles(); !reflect.DeepEqual(abs, again) {
		c.Failf("DSC.AbsFiles() gives different answers on two calls: %v / %v", abs, again)
	}
	if len(abs) != len(files) {
		c.Failf("DSC.AbsFiles() has %d entries for %d files", len(abs), len(files))
	} else {
		for i, f := range files {
			if filepath.Clean(abs[i].Filename) != filepath.Clean(filepath.Dir(path)+"/"+f) {
				c.Failf("DSC.AbsFiles()[%d] = %q, want %q", i, abs[i].Filename, filepath.Dir(path)+"/"+f)
			}
		}
	}
	c.Cover("accessor:AbsFiles")
	wantDS := ""
	for _, f := range files {
		if strings.Contains(f, ".debian.") {
			wantDS = f
			break
		}
	}
	ds, err := got.DebianSource()
	if wantDS == "" {
		c.Cover("accessor:DebianSource:none")
		if err == nil {
			c.Failf("DSC.DebianSource() = %q without a .debian. file in %q", ds, files)
		}
	} else {
		c.Cover("accessor:DebianSource:found")
		if err != nil || ds != wantDS {
			c.Failf("DSC.DebianSource() = %q, %v; want %q", ds, err, wantDS)
		}
	}
	// accessors only read: after all of them the decoded value is still what the document says, and they answer
	// the same when asked again
	compareStruct(c, "DSC (after its accessors were called)", *got, d.want, text)
	if gm := got.Maintainers(); !eqLines(gm, wantM) {
		c.Failf("DSC.Maintainers() = %q on the second call, the document says %q\ndocument: %q", gm, wantM, text)
	}
	c.Cover("accessor:value-unchanged-by-accessors")
}

func (p c10) changes(c *core.C, t *core.T, r *core.Rand) {
	d := newDoc()
	src := gen.PkgName(r)
	ver := gen.Version(r)
	d.scalar(r, "Format", "Format", "1.8")
	d.scalar(r, "Date", "", "Mon, 02 Jan 2006 15:04:05 +0000")
	delete(d.want, "")
	d.scalar(r, "Source", "Source", src)
	bins := []string{src}
	for k := r.Range(0, 4); k > 0; k-- {
		bins = append(bins, src+"-"+word(r))
	}
	d.list(r, "Binary", "Binaries", bins, " ", false)
	archs := pick(r, r.Range(1, 3), append([]string{"source"}, c10Archs...))
	d.raw("Architecture", strings.Join(archs, " "))
	al := []dependency.Arch{}
	for _, n := range archs {
		al = append(al, archVal(n))
	}
	d.want["Architectures"] = al
	d.raw("Version", ver.Text)
	d.want["Version"] = libVer(ver.V)
	if r.Bool() {
		d.scalar(r, "Origin", "Origin", "debian")
	}
	d.scalar(r, "Distribution", "Distribution", r.Pick([]string{"unstable", "experimental", "bookworm-backports"}))
	d.scalar(r, "Urgency", "Urgency", r.Pick([]string{"low", "medium", "high"}))
	d.scalar(r, "Maintainer", "Maintainer", person(r))
	d.scalar(r, "Changed-By", "ChangedBy", person(r))
	if r.Bool() {
		var cl []string
		for k := r.Range(1, 4); k > 0; k-- {
			cl = append(cl, fmt.Sprint(100000+r.Intn(900000)))
			if r.Chance(1, 3) { // the early bugs: one and two digits
				cl[len(cl)-1] = fmt.Sprint(1 + r.Intn(99))
			}
		}
		d.list(r, "Closes", "Closes", cl, " ", false)
	}
	d.multiline(r, "Changes", "Changes")
	base := shortName(src) + "_" + shortName(strings.ReplaceAll(ver.V.Upstream, ":", ""))
	files := genFiles(r, base)
	hasDsc := false
	for _, f := range files {
		if strings.HasSuffix(f, ".dsc") {
			hasDsc = true
		}
	}
	if r.Chance(3, 4) {
		d.sums(r, "Checksums-Sha1", "ChecksumsSha1", "sha1", 40, files)
	}
	if r.Chance(3, 4) {
		d.sums(r, "Checksums-Sha256", "ChecksumsSha256", "sha256", 64, files)
	}
	var conts []string
	wantFiles := []control.FileListChangesFileHash{}
	for _, f := range files {
		e := control.FileListChangesFileHash{FileHash: control.FileHash{Algorithm: "md5", Hash: hexHash(r, 32), Size: bigSize(r), Filename: f},
			Component: r.Pick([]string{"devel", "non-free/libs", "python"}), Priority: r.Pick([]string{"optional", "extra", "required"})}
		wantFiles = append(wantFiles, e)
		conts = append(conts, fmt.Sprintf("%s %d %s %s %s", e.Hash, e.Size, e.Component, e.Priority, e.Filename))
	}
	d.raw("Files", "", conts...)
	d.want["Files"] = wantFiles
	text := d.sb.String()

	dir := filepath.Join(t.WorkDir, "c10changes")
	os.MkdirAll(dir, 0o755)
	path := filepath.Join(dir, base+"_source.changes")
	d.want["Filename"] = path
	got, err := control.ParseChanges(bufReader(r, c, text), path)
	if err != nil || got == nil {
		c.Failf("ParseChanges failed on a well-formed .changes: %v\ndocument: %q", err, text)
		return
	}
	compareStruct(c, "Changes", *got, d.want, text)
	comparePara(c, "Changes", got.Paragraph, text, 0)
	{
		os.WriteFile(path, []byte(text), 0o644)
		old, _ := os.Getwd()
		if os.Chdir(dir) == nil {
			gf, err := control.ParseChangesFile(filepath.Base(path))
			os.Chdir(old)
			if err != nil || gf == nil {
				c.Failf("ParseChangesFile(relative path) failed: %v", err)
			} else {
				compareStruct(c, "Changes", *gf, d.want, text)
				c.Cover("entry:ParseChangesFile")
			}
		}
		// ... and through a symbolic link in another directory: the handle is where the caller said it is
		ldir := filepath.Join(dir, "links")
		os.MkdirAll(ldir, 0o755)
		lp := filepath.Join(ldir, filepath.Base(path))
		os.Remove(lp)
		if os.Symlink(path, lp) == nil {
			gl, err := control.ParseChangesFile(lp)
			if err != nil || gl == nil {
				c.Failf("ParseChangesFile through a symbolic link failed: %v", err)
			} else {
				w3 := map[string]interface{}{}
				for k, v := range d.want {
					w3[k] = v
				}
				w3["Filename"] = lp
				compareStruct(c, "Changes", *gl, w3, text)
				c.Cover("entry:ParseChangesFile-via-symlink")
			}
			os.Remove(lp)
		}
		os.Remove(path)
	}
	// accessors are asked twice: the second answer must equal the first
	if a1, a2 := got.AbsFiles(), got.AbsFiles(); !reflect.DeepEqual(a1, a2) {
		c.Failf("Changes.AbsFiles() gives different answers on two calls: %v / %v", a1, a2)
	}
	coverLayout(c, d)
	c.Nontrivial()
	abs := got.AbsFiles()
	if len(abs) != len(files) {
		c.Failf("Changes.AbsFiles() has %d entries for %d files", len(abs), len(files))
	} else {
		for i, f := range files {
			if filepath.Clean(abs[i].Filename) != filepath.Join(dir, f) {
				c.Failf("Changes.AbsFiles()[%d] = %q, want %q", i, abs[i].Filename, filepath.Join(dir, f))
			}
		}
	}
	c.Cover("accessor:AbsFiles")
	// GetDSC
	if hasDsc {
		dd := newDoc()
		dsrc, _, _, _, _, _ := p.genDSC(r, dd)
		os.WriteFile(filepath.Join(dir, base+".dsc"), []byte(dd.sb.String()), 0o644)
		gd, err := got.GetDSC()
		if err != nil || gd == nil || gd.Source != dsrc {
			c.Failf("Changes.GetDSC() = %+v, %v; want the .dsc next to the .changes (Source %q)", gd, err, dsrc)
		} else if filepath.Clean(gd.Filename) != filepath.Join(dir, base+".dsc") {
			c.Failf("Changes.GetDSC().Filename = %q, want %q", gd.Filename, filepath.Join(dir, base+".dsc"))
		}
		os.Remove(filepath.Join(dir, base+".dsc"))
		c.Cover("accessor:GetDSC")
	} else if gd, err := got.GetDSC(); err == nil {
		c.Failf("Changes.GetDSC() = %+v for an upload without a .dsc", gd)
	}
	compareStruct(c, "Changes (after its accessors were called)", *got, d.want, text)
}

func (p c10) control(c *core.C, r *core.Rand) {
	d := newDoc()
	src := gen.PkgName(r)
	d.scalar(r, "Source", "Source", src)
	d.scalar(r, "Section", "Section", r.Pick([]string{"misc", "libs", "non-free/devel"}))
	d.scalar(r, "Priority", "Priority", r.Pick([]string{"optional", "extra"}))
	maint := person(r)
	d.scalar(r, "Maintainer", "Maintainer", maint)
	var uploaders []string
	for k := r.Range(0, 3); k > 0; k-- {
		uploaders = append(uploaders, person(r))
	}
	if len(uploaders) > 0 {
		d.list(r, "Uploaders", "Uploaders", uploaders, ",", true)
	}
	if r.Chance(3, 4) {
		d.dep(r, "Build-Depends", "BuildDepends")
	}
	if r.Chance(1, 3) {
		d.dep(r, "Build-Depends-Indep", "BuildDependsIndep")
	}
	if r.Chance(1, 3) {
		d.dep(r, "Build-Conflicts", "BuildConflicts")
	}
	if r.Chance(1, 3) {
		d.dep(r, "Build-Conflicts-Indep", "BuildConflictsIndep")
	}
	if r.Chance(1, 4) {
		d.multiline(r, "Description", "Description")
	}
	d.scalar(r, "Standards-Version", "", "4.6.2")
	delete(d.want, "")
	srcDoc := d
	var binDocs []*c10Doc
	var binArchs [][]string
	nb := r.Range(0, 4)
	text := srcDoc.sb.String()
	for i := 0; i < nb; i++ {
		b := newDoc()
		b.scalar(r, "Package", "Package", src+"-"+word(r))
		archs := pick(r, r.Range(1, 3), c10Archs)
		b.archList(r, "Architecture", "Architectures", archs)
		binArchs = append(binArchs, archs)
		if r.Bool() {
			b.scalar(r, "Section", "Section", "libs")
		}
		if r.Bool() {
			b.scalar(r, "Priority", "Priority", "optional")
		}
		if r.Bool() {
			ess := r.Bool()
			b.raw("Essential", map[bool]string{true: "yes", false: "no"}[ess])
			b.want["Essential"] = ess
		}
		for _, f := range [][2]string{{"Depends", "Depends"}, {"Recommends", "Recommends"}, {"Suggests", "Suggests"}, {"Enhances", "Enhances"}, {"Pre-Depends", "PreDepends"},
			{"Breaks", "Breaks"}, {"Conflicts", "Conflicts"}, {"Replaces", "Replaces"}, {"Built-Using", "BuiltUsing"}} {
			if r.Chance(1, 3) {
				b.dep(r, f[0], f[1])
			}
		}
		if r.Chance(1, 3) {
			var conts []string
			wantC := []control.MD5FileHash{}
			for k := r.Range(1, 3); k > 0; k-- {
				fh := control.FileHash{Algorithm: "md5", Filename: "/etc/" + word(r) + "/" + word(r) + ".conf", Hash: hexHash(r, 32)}
				wantC = append(wantC, control.MD5FileHash{FileHash: fh})
				conts = append(conts, fh.Filename+" "+fh.Hash)
			}
			b.raw("Conffiles", "", conts...)
			b.want["Conffiles"] = wantC
		}
		b.multiline(r, "Description", "Description")
		binDocs = append(binDocs, b)
		text += strings.Repeat("\n", r.Range(1, 2)) + b.sb.String()
	}
	path := "/src/debian/control"
	if tw := os.Getenv("VERIF_WORK_RUN"); tw != "" {
		fp := filepath.Join(tw, fmt.Sprintf("c10control-%d", os.Getpid()))
		if os.WriteFile(fp, []byte(text), 0o644) == nil {
			gf, err := control.ParseControlFile(fp)
			if err != nil || gf == nil || gf.Filename != fp || len(gf.Binaries) != nb || gf.Source.Source != src {
				c.Failf("ParseControlFile(%q) = %+v, %v; want Filename %q, %d binaries, source %q", fp, gf, err, fp, nb, src)
			}
			c.Cover("entry:ParseControlFile")
			lp := fp + ".link"
			os.Remove(lp)
			if os.Symlink(fp, lp) == nil {
				gl, err := control.ParseControlFile(lp)
				if err != nil || gl == nil || gl.Filename != lp || len(gl.Binaries) != nb || gl.Source.Source != src {
					c.Failf("ParseControlFile through a symbolic link = %+v, %v; want Filename %q, %d binaries, source %q", gl, err, lp, nb, src)
				}
				c.Cover("entry:ParseControlFile-via-symlink")
				os.Remove(lp)
			}
			os.Remove(fp)
		}
	}
	got, err := control.ParseControl(bufReader(r, c, text), path)
	if err != nil || got == nil {
		c.Failf("ParseControl failed on a well-formed debian/control: %v\ndocument: %q", err, text)
		return
	}
	if got.Filename != path {
		c.Failf("Control.Filename = %q, want %q", got.Filename, path)
	}
	compareStruct(c, "SourceParagraph", got.Source, srcDoc.want, text)
	comparePara(c, "SourceParagraph", got.Source.Paragraph, text, 0)
	if len(got.Binaries) != nb {
		c.Failf("ParseControl returned %d binary paragraphs, the document has %d\ndocument: %q", len(got.Binaries), nb, text)
		return
	}
	for i, b := range binDocs {
		compareStruct(c, "BinaryParagraph", got.Binaries[i], b.want, text)
		comparePara(c, "BinaryParagraph", got.Binaries[i].Paragraph, text, i+1)
		coverArchs(c, binArchs[i])
		if b.folded {
			srcDoc.folded = true
		}
	}
	wantM := append([]string{maint}, uploaders...)
	if gm := got.Source.Maintainers(); !eqLines(gm, wantM) {
		c.Failf("SourceParagraph.Maintainers() = %q, the document says %q\ndocument: %q", gm, wantM, text)
	}
	c.Cover("accessor:Maintainers")
	compareStruct(c, "SourceParagraph (after its accessors were called)", got.Source, srcDoc.want, text)
	if gm := got.Source.Maintainers(); !eqLines(gm, wantM) {
		c.Failf("SourceParagraph.Maintainers() = %q on the second call, the document says %q\ndocument: %q", gm, wantM, text)
	}
	coverLayout(c, srcDoc)
	c.Nontrivial()
}

func (p c10) packages(c *core.C, r *core.Rand) {
	n := r.Range(1, 3)
	var docs []*c10Doc
	var asts []map[string]model.MDep
	var srcExp []string
	text := ""
	for i := 0; i < n; i++ {
		d := newDoc()
		pkg := gen.PkgName(r)
		d.scalar(r, "Package", "Package", pkg)
		exp := pkg
		switch r.Intn(3) {
		case 0:
			s := gen.PkgName(r)
			d.scalar(r, "Source", "Source", s)
			exp = s
		case 1:
			s := gen.PkgName(r)
			d.scalar(r, "Source", "Source", s+" (1.0-1+b1)")
			exp = s
		}
		srcExp = append(srcExp, exp)
		ver := gen.Version(r)
		d.raw("Version", ver.Text)
		d.want["Version"] = libVer(ver.V)
		sz := r.Intn(1 << 20)
		if r.Chance(1, 4) {
			sz = int(r.Pick3(1<<31, 1<<32+1, 1<<35))
		}
		d.raw("Installed-Size", fmt.Sprint(sz))
		d.want["InstalledSize"] = sz
		d.scalar(r, "Maintainer", "Maintainer", person(r))
		an := r.Pick(c10Archs)
		d.raw("Architecture", an)
		d.want["Architecture"] = archVal(an)
		coverArchs(c, []string{an})
		if r.Bool() {
			d.scalar(r, "Multi-Arch", "MultiArch", r.Pick([]string{"same", "foreign", "allowed"}))
		}
		m := map[string]model.MDep{}
		for _, f := range []string{"Depends", "Pre-Depends", "Suggests", "Conflicts", "Breaks", "Replaces", "Built-Using"} {
			if r.Chance(1, 2) {
				m[f] = d.dep(r, f, "")
			}
		}
		asts = append(asts, m)
		d.multiline(r, "Description", "Description")
		if r.Bool() {
			d.scalar(r, "Homepage", "Homepage", "https://example.org/"+pkg)
		}
		if r.Bool() {
			d.scalar(r, "Description-md5", "DescriptionMD5", hexHash(r, 32))
		}
		if r.Chance(3, 4) {
			var tags []string
			for k := r.Range(1, 6); k > 0; k-- {
				tags = append(tags, word(r)+"::"+word(r))
			}
			d.list(r, "Tag", "Tags", tags, ",", true)
		}
		d.scalar(r, "Section", "Section", "devel")
		d.scalar(r, "Priority", "Priority", "optional")
		d.scalar(r, "Filename", "Filename", "pool/main/"+pkg[:1]+"/"+pkg+"/"+pkg+"_1_amd64.deb")
		fsz := r.Intn(1 << 30)
		if r.Chance(1, 4) { // packages over 2 GiB exist
			fsz = int(r.Pick3(1<<31-1, 1<<31, 1<<32, 1<<33+5, 1<<40))
			c.Cover("size:int-field>=2^31")
		}
		d.raw("Size", fmt.Sprint(fsz))
		d.want["Size"] = fsz
		d.scalar(r, "MD5sum", "MD5sum", hexHash(r, 32))
		d.scalar(r, "SHA1", "SHA1", hexHash(r, 40))
		d.scalar(r, "SHA256", "SHA256", hexHash(r, 64))
		if r.Bool() {
			var ids []string
			for k := r.Range(1, 3); k > 0; k-- {
				ids = append(ids, hexHash(r, 40))
			}
			d.list(r, "Build-Ids", "DebugBuildIds", ids, " ", false)
		}
		docs = append(docs, d)
		if i > 0 {
			text += "\n"
		}
		text += d.sb.String()
	}
	got, err := control.ParseBinaryIndex(bufReader(r, c, text))
	if err != nil {
		c.Failf("ParseBinaryIndex failed on a well-formed Packages file: %v\ndocument: %q", err, text)
		return
	}
	if len(got) != n {
		c.Failf("ParseBinaryIndex returned %d entries for %d paragraphs", len(got), n)
		return
	}
	for i, d := range docs {
		compareStruct(c, "BinaryIndex", got[i], d.want, text)
		comparePara(c, "BinaryIndex", got[i].Paragraph, text, i)
		if sp := got[i].SourcePackage(); sp != srcExp[i] {
			c.Failf("BinaryIndex.SourcePackage() = %q, want %q (Package %q, Source %q)", sp, srcExp[i], got[i].Package, got[i].Source)
		}
		if strings.Contains(got[i].Source, " ") {
			c.Cover("accessor:SourcePackage:binnmu")
		} else if got[i].Source == "" {
			c.Cover("accessor:SourcePackage:default")
		}
		acc := map[string]func() dependency.Dependency{"Depends": got[i].GetDepends, "Pre-Depends": got[i].GetPreDepends, "Suggests": got[i].GetSuggests,
			"Conflicts": got[i].GetConflicts, "Breaks": got[i].GetBreaks, "Replaces": got[i].GetReplaces, "Built-Using": got[i].GetBuiltUsing}
		for f, fn := range acc {
			gd := fn()
			if diff := diffDep(&gd, asts[i][f]); diff != "" {
				c.Failf("BinaryIndex accessor for %s: %s\ndocument: %q", f, diff, text)
			}
		}
		c.Cover("accessor:GetDepends")
		coverLayout(c, d)
	}
	c.Nontrivial()
}

func (p c10) sources(c *core.C, r *core.Rand) {
	d := newDoc()
	pkg := gen.PkgName(r)
	d.scalar(r, "Package", "Package", pkg)
	bins := []string{pkg}
	for k := r.Range(0, 5); k > 0; k-- {
		bins = append(bins, pkg+"-"+word(r))
	}
	d.list(r, "Binary", "Binaries", bins, ",", true)
	ver := gen.Version(r)
	d.raw("Version", ver.Text)
	d.want["Version"] = libVer(ver.V)
	d.scalar(r, "Maintainer", "Maintainer", person(r))
	if r.Bool() {
		d.scalar(r, "Uploaders", "Uploaders", person(r)+", "+person(r))
	}
	archs := pick(r, r.Range(1, 3), c10Archs)
	d.archList(r, "Architecture", "Architecture", archs)
	coverArchs(c, archs)
	d.scalar(r, "Standards-Version", "StandardsVersion", r.Pick([]string{"3.9.6", "4.6.2"}))
	d.scalar(r, "Format", "Format", "3.0 (quilt)")
	base := shortName(pkg) + "_" + shortName(strings.ReplaceAll(ver.V.Upstream, ":", ""))
	files := genFiles(r, base)
	d.sums(r, "Files", "Files", "md5", 32, files)
	for _, f := range [][2]string{{"Vcs-Browser", "VcsBrowser"}, {"Vcs-Git", "VcsGit"}, {"Vcs-Svn", "VcsSvn"}, {"Vcs-Bzr", "VcsBzr"}} {
		if r.Chance(1, 2) {
			d.scalar(r, f[0], f[1], "https://"+f[1]+".example.org/"+pkg)
		}
	}
	if r.Chance(3, 4) {
		d.sums(r, "Checksums-Sha1", "ChecksumsSha1", "sha1", 40, files)
	}
	if r.Chance(3, 4) {
		d.sums(r, "Checksums-Sha256", "ChecksumsSha256", "sha256", 64, files)
	}
	if r.Bool() {
		d.scalar(r, "Homepage", "Homepage", "https://example.org/"+pkg)
	}
	d.scalar(r, "Directory", "Directory", "pool/main/"+pkg[:1]+"/"+pkg)
	d.scalar(r, "Priority", "Priority", "optional")
	d.scalar(r, "Section", "Section", "misc")
	m := map[string]model.MDep{}
	for _, f := range []string{"Build-Depends", "Build-Depends-Arch", "Build-Depends-Indep"} {
		if r.Chance(1, 2) {
			m[f] = d.dep(r, f, "")
		}
	}
	text := d.sb.String()
	if r.Bool() {
		text += "\nPackage: other\nBinary: other\nVersion: 1\nMaintainer: x\nArchitecture: all\nFormat: 1.0\nFiles:\n d41d8cd98f00b204e9800998ecf8427e 0 other_1.dsc\nDirectory: pool/o\n"
	}
	got, err := control.ParseSourceIndex(bufReader(r, c, text))
	if err != nil || len(got) == 0 {
		c.Failf("ParseSourceIndex failed on a well-formed Sources file: %v\ndocument: %q", err, text)
		return
	}
	compareStruct(c, "SourceIndex", got[0], d.want, text)
	comparePara(c, "SourceIndex", got[0].Paragraph, text, 0)
	acc := map[string]func() dependency.Dependency{"Build-Depends": got[0].GetBuildDepends, "Build-Depends-Arch": got[0].GetBuildDependsArch, "Build-Depends-Indep": got[0].GetBuildDependsIndep}
	for f, fn := range acc {
		gd := fn()
		if diff := diffDep(&gd, m[f]); diff != "" {
			c.Failf("SourceIndex accessor for %s: %s\ndocument: %q", f, diff, text)
		}
	}
	c.Cover("accessor:GetBuildDepends")
	c.Cover("layout:checksum-block")
	coverLayout(c, d)
	c.Nontrivial()
}

// genDebControl draws a DEBIAN/control paragraph (text + expectations).
func genDebControl(r *core.Rand, c *core.C) (d *c10Doc, wantSrc string) {
	d = newDoc()
	pkg := gen.PkgName(r)
	d.scalar(r, "Package", "Package", pkg)
	wantSrc = pkg
	if r.Bool() {
		s := gen.PkgName(r)
		d.scalar(r, "Source", "Source", s)
		wantSrc = s
	}
	ver := gen.Version(r)
	d.raw("Version", ver.Text)
	d.want["Version"] = libVer(ver.V)
	an := r.Pick(c10Archs)
	d.raw("Architecture", an)
	d.want["Architecture"] = archVal(an)
	if c != nil {
		coverArchs(c, []string{an})
	}
	d.scalar(r, "Maintainer", "Maintainer", person(r))
	if r.Bool() {
		sz := r.Intn(1 << 20)
		d.raw("Installed-Size", fmt.Sprint(sz))
		d.want["InstalledSize"] = sz
	}
	if r.Bool() {
		d.scalar(r, "Multi-Arch", "MultiArch", "same")
	}
	for _, f := range [][2]string{{"Depends", "Depends"}, {"Recommends", "Recommends"}, {"Suggests", "Suggests"}, {"Breaks", "Breaks"}, {"Replaces", "Replaces"}, {"Built-Using", "BuiltUsing"}} {
		if r.Chance(1, 2) {
			d.dep(r, f[0], f[1])
		}
	}
	d.scalar(r, "Section", "Section", "utils")
	d.scalar(r, "Priority", "Priority", "optional")
	if r.Bool() {
		d.scalar(r, "Homepage", "Homepage", "https://example.org")
	}
	d.multiline(r, "Description", "Description")
	return d, wantSrc
}

func (p c10) debcontrol(c *core.C, r *core.Rand) {
	d, wantSrc := genDebControl(r, c)
	text := d.sb.String()
	var got deb.Control
	if err := control.Unmarshal(&got, strings.NewReader(text)); err != nil {
		c.Failf("Unmarshal into deb.Control failed on a well-formed DEBIAN/control: %v\ndocument: %q", err, text)
		return
	}
	compareStruct(c, "Control", got, d.want, text)
	comparePara(c, "deb.Control", got.Paragraph, text, 0)
	if got.SourceName() != wantSrc {
		c.Failf("deb.Control.SourceName() = %q, want %q", got.SourceName(), wantSrc)
	}
	c.Cover("accessor:SourceName")
	coverLayout(c, d)
	c.Nontrivial()
}

type bestProbe struct {
	control.Paragraph
	Name string
	control.BestChecksums
}

func (p c10) best(c *core.C, r *core.Rand) {
	d := newDoc()
	d.scalar(r, "Name", "Name", word(r))
	files := genFiles(r, "x_1")
	var s256, s512 []control.FileHash
	has256, has512 := r.Bool(), r.Bool()
	if has256 {
		s256 = d.sums(r, "Checksums-Sha256", "ChecksumsSha256", "sha256", 64, files)
	}
	if has512 {
		s512 = d.sums(r, "Checksums-Sha512", "ChecksumsSha512", "sha512", 128, files)
	}
	text := d.sb.String()
	var got bestProbe
	if err := control.Unmarshal(&got, strings.NewReader(text)); err != nil {
		c.Failf("Unmarshal into a struct embedding BestChecksums failed: %v\ndocument: %q", err, text)
		return
	}
	delete(d.want, "Name")
	compareStruct(c, "BestChecksums", got.BestChecksums, d.want, text)
	cs := got.Checksums()
	var want []control.FileHash
	switch {
	case has256:
		want = s256
		c.Cover("accessor:Checksums:sha256")
	case has512:
		want = s512
		c.Cover("accessor:Checksums:sha512")
	default:
		c.Cover("accessor:Checksums:none")
	}
	// with both lists present "best" is not pinned down by the statement (the code at the pinned commit takes
	// SHA-256, the stronger SHA-512 is just as defensible): either list, whole and correctly tagged, is right
	if has256 && has512 && reflect.DeepEqual(normalizeNil(cs), normalizeNil(s512)) {
		want = s512
		c.Cover("accessor:Checksums:both-present-took-sha512")
	}
	if !reflect.DeepEqual(normalizeNil(cs), normalizeNil(want)) {
		c.Failf("BestChecksums.Checksums() = %+v, the document says %+v\ndocument: %q", cs, want, text)
	}
	for _, fh := range cs {
		wantP := "/mirror/dists/sid/main/by-hash/" + fh.ByHash + "/" + fh.Hash
		if gp := fh.ByHashPath("/mirror/dists/sid/main/Packages.xz"); gp != wantP {
			c.Failf("FileHash.ByHashPath = %q, want %q", gp, wantP)
		}
		c.Cover("accessor:ByHashPath")
	}
	c.Cover("layout:checksum-block")
	c.Nontrivial()
}

func (p c10) RunBatch(t *core.T, b core.Batch) {
	if concDispatch(p, t, b) {
		return
	}
	r := t.Rand(b.Name, fmt.Sprint(b.Arg))
	for i := 0; i < b.N; i++ {
		cs := c10Case{Kind: b.Name, Seed: r.U64(), Steer: r.SteerRest()}
		in, _ := json.Marshal(cs)
		t.Case("doc", in, func(c *core.C) { p.run(c, t, cs) })
	}
}

func (p c10) RunCase(t *core.T, kind string, input []byte) {
	var cs c10Case
	if json.Unmarshal(input, &cs) == nil {
		t.Case(kind, input, func(c *core.C) { p.run(c, t, cs) })
	}
}
