package props

import (
	"encoding/json"
	"fmt"
	"io"
	"strings"
	"testing/iotest"

	"pault.ag/go/debian/control"

	"verif/internal/core"
	"verif/internal/gen"
	"verif/internal/model"
)

// C07 — control-file reader recovers every paragraph, field and value.
type c07 struct{}

func init() { core.Register(c07{}) }

func (c07) ID() string    { return "C07" }
func (c07) Level() string { return "exploration" }
func (c07) Rule() string {
	return "deb822 documents generated from a model (0..6 paragraphs, unique field names incl. odd legal ones, empty or non-empty first line with surrounding blanks, 0..6 continuation lines with space/tab marker, indentation, trailing blanks and ' .', comments before, between and inside fields, blank-line runs 1..3, leading/trailing blank lines, LF/CRLF/mixed, final newline present or absent) read through four access paths (Next until EOF, All, Unmarshal into a slice of structs embedding Paragraph, repeated Decoder.Decode) and five reader kinds (whole string, one byte, half, random chunks, data-with-EOF); each must return the model's paragraphs, field order and logical lines. Invariant part: documents with one structural edit (byte insert/delete/replace, duplicated/removed/swapped line) and raw byte strings; every returned paragraph must have keys(Values) == set(Order) without duplicates. Non-trivial = document with >= 1 continuation line, comment, CRLF or missing final newline; corrupted/raw input that yields >= 1 paragraph or an error. Distinct by hash."
}
func (c07) Assumptions() []string {
	return []string{"whitespace-only lines are never generated (Policy lets parsers treat them either way)", "field names Values/Order/Paragraph are not generated on the decode paths"}
}

func (c07) Batches(tier string, seed uint64) []core.Batch {
	var b []core.Batch
	b = append(b, core.Batch{Name: "pinned"})
	b = append(b, spread("doc", 16, tierN(tier, 900, 6000))...)
	b = append(b, spread("corrupt", 8, tierN(tier, 6000, 40000))...)
	b = append(b, spread("raw", 8, tierN(tier, 6000, 50000))...)
	b = append(b, spread("huge", tierN(tier, 1, 4), 1)...)
	b = append(b, spread("corpus", 4, 0)...)                                      // this machine's dpkg database, in slices of 40 stanzas
	b = append(b, core.Batch{Name: "volume", N: tierN(tier, 400_000, 1_500_000)}) // one case, one process: see volume.go
	return append(b, conc(tierN(tier, 40, 300), "doc")...)
}

func (c07) Mandatory(tier string) []string {
	return []string{"doc:comment-between-continuations", "doc:crlf-blank-separator", "doc:empty-first-line", "doc:no-final-newline-after-continuation", "doc:dot-line",
		"doc:tab-marker", "doc:line>=4096-bytes", "doc:free-standing-comment-block", "doc:blank-run>=2", "doc:leading-blank-lines", "doc:zero-paragraphs", "doc:mixed-line-endings", "doc:indented-continuation",
		"path:Next", "path:All", "path:Unmarshal-slice", "path:Decoder.Decode", "path:Unmarshal-typed-slice", "path:Decoder.Decode-typed", "doc:stream>=36MiB", "reader:string", "reader:onebyte", "reader:half", "reader:chunks", "reader:data+EOF", "reader:fails-once-mid-stream",
		"inv:paragraph-returned", "volume:different-field-names-read-in-one-process", "caller:Set-on-returned-paragraphs"} // ("inv:error-returned" is evidence only: a reader may be as lenient as it likes about malformed lines)
}

type chunkReader struct {
	s string
	r *core.Rand
}

func (c *chunkReader) Read(p []byte) (int, error) {
	if len(c.s) == 0 {
		return 0, io.EOF
	}
	n := c.r.Range(1, 7)
	if n > len(p) {
		n = len(p)
	}
	if n > len(c.s) {
		n = len(c.s)
	}
	copy(p, c.s[:n])
	c.s = c.s[n:]
	return n, nil
}

var c07Readers = []string{"string", "onebyte", "half", "chunks", "data+EOF"}

func mkReader(kind, text string, seed uint64) io.Reader {
	switch kind {
	case "onebyte":
		return iotest.OneByteReader(strings.NewReader(text))
	case "half":
		return iotest.HalfReader(strings.NewReader(text))
	case "chunks":
		return &chunkReader{s: text, r: core.NewRand(seed, "chunks")}
	case "data+EOF":
		return iotest.DataErrReader(strings.NewReader(text))
	}
	return strings.NewReader(text)
}

// onceFailingReader delivers s[:k], then fails once with a non-EOF error, then delivers the rest.
type onceFailingReader struct {
	s      string
	k, off int
	failed bool
}

func (f *onceFailingReader) Read(p []byte) (int, error) {
	if f.off >= f.k && !f.failed {
		f.failed = true
		return 0, errInjectedRead
	}
	if f.off >= len(f.s) {
		return 0, io.EOF
	}
	end := len(f.s)
	if f.off < f.k {
		end = f.k
	}
	n := copy(p, f.s[f.off:end])
	f.off += n
	return n, nil
}

type pWrap struct{ control.Paragraph }

// c07Typed: the raw paragraph next to a few typed fields, as the library's own document types have it.
type c07Typed struct {
	control.Paragraph
	Package string
	Source  string
	Tag     string
	Section string `control:"Section"`
	Bugs    string
}

// typedAgrees: a typed field holds the paragraph's value of exactly that name, or nothing.
func typedAgrees(i int, t c07Typed) error {
	for name, got := range map[string]string{"Package": t.Package, "Source": t.Source, "Tag": t.Tag, "Section": t.Section, "Bugs": t.Bugs} {
		want, present := t.Paragraph.Values[name]
		if !present {
			// another spelling of the name (Policy: field names are not case-sensitive): a decoder may or may not honour it
			for k, v := range t.Paragraph.Values {
				if strings.EqualFold(k, name) && (got == "" || strings.TrimSpace(got) == strings.TrimSpace(v)) {
					got, want, present = v, v, true
				}
			}
		}
		if !present && got != "" {
			return fmt.Errorf("paragraph %d has no field %q, yet the struct field holds %q (a value from another paragraph?)", i, name, got)
		}
		if present && strings.TrimSpace(got) != strings.TrimSpace(want) {
			return fmt.Errorf("paragraph %d: struct field %s = %q, the paragraph's value is %q", i, name, got, want)
		}
	}
	return nil
}

// readAll reads text through one access path.
func c07Read(path, rkind, text string, seed uint64) ([]control.Paragraph, error) {
	rd := mkReader(rkind, text, seed)
	switch path {
	case "Next":
		pr, err := control.NewParagraphReader(rd, nil)
		if err != nil {
			return nil, err
		}
		var out []control.Paragraph
		for i := 0; i < 1+len(text); i++ {
			p, err := pr.Next()
			if err == io.EOF {
				return out, nil
			}
			if err != nil {
				return out, err
			}
			out = append(out, *p)
		}
		return out, fmt.Errorf("Next() returned more paragraphs than the input has bytes")
	case "All":
		pr, err := control.NewParagraphReader(rd, nil)
		if err != nil {
			return nil, err
		}
		return pr.All()
	case "Unmarshal-slice":
		var ps []pWrap
		if err := control.Unmarshal(&ps, rd); err != nil {
			return nil, err
		}
		out := make([]control.Paragraph, len(ps))
		for i := range ps {
			out[i] = ps[i].Paragraph
		}
		return out, nil
	case "Unmarshal-typed-slice":
		var ps []c07Typed
		if err := control.Unmarshal(&ps, rd); err != nil {
			return nil, err
		}
		out := make([]control.Paragraph, len(ps))
		for i := range ps {
			out[i] = ps[i].Paragraph
			if err := typedAgrees(i, ps[i]); err != nil {
				return out, typedMismatch{err}
			}
		}
		return out, nil
	case "Decoder.Decode-typed":
		dec, err := control.NewDecoder(rd, nil)
		if err != nil {
			return nil, err
		}
		var out []control.Paragraph
		for i := 0; i < 1+len(text); i++ {
			var p c07Typed
			err := dec.Decode(&p)
			if err == io.EOF {
				return out, nil
			}
			if err != nil {
				return out, err
			}
			out = append(out, p.Paragraph)
			if err := typedAgrees(i, p); err != nil {
				return out, typedMismatch{err}
			}
		}
		return out, fmt.Errorf("Decode returned more paragraphs than the input has bytes")
	default: // Decoder.Decode
		dec, err := control.NewDecoder(rd, nil)
		if err != nil {
			return nil, err
		}
		var out []control.Paragraph
		for i := 0; i < 1+len(text); i++ {
			var p pWrap
			err := dec.Decode(&p)
			if err == io.EOF {
				return out, nil
			}
			if err != nil {
				return out, err
			}
			out = append(out, p.Paragraph)
		}
		return out, fmt.Errorf("Decode returned more paragraphs than the input has bytes")
	}
}

var c07Paths = []string{"Next", "All", "Unmarshal-slice", "Decoder.Decode", "Unmarshal-typed-slice", "Decoder.Decode-typed"}

// typedMismatch marks a disagreement between typed fields and the embedded paragraph (always a finding).
type typedMismatch struct{ error }

func eqLines(a, b []string) bool {
	if len(a) != len(b) {
		return false
	}
	for i := range a {
		if a[i] != b[i] {
			return false
		}
	}
	return true
}

// diffParas compares library paragraphs with expected (order, lines).
func diffParas(got []control.Paragraph, want []model.RefPara) string {
	if len(got) != len(want) {
		return fmt.Sprintf("%d paragraphs, want %d", len(got), len(want))
	}
	for i, w := range want {
		g := got[i]
		if !eqLines(g.Order, w.Order) {
			return fmt.Sprintf("paragraph %d lists fields %q, want %q", i, g.Order, w.Order)
		}
		if len(g.Values) != len(w.Order) {
			return fmt.Sprintf("paragraph %d has %d values for %d listed fields", i, len(g.Values), len(w.Order))
		}
		for _, n := range w.Order {
			v, ok := g.Values[n]
			if !ok {
				return fmt.Sprintf("paragraph %d: field %q listed but has no value", i, n)
			}
			if gl := model.ValueLines(v); !eqLines(gl, w.Lines[n]) {
				return fmt.Sprintf("paragraph %d field %q: value %q = lines %q, want lines %q", i, n, v, gl, w.Lines[n])
			}
		}
	}
	return ""
}

func docExpect(d model.Doc) []model.RefPara {
	var out []model.RefPara
	for _, p := range d.Paras {
		rp := model.RefPara{Lines: map[string][]string{}}
		for _, f := range p.Fields {
			rp.Order = append(rp.Order, f.Name)
			rp.Lines[f.Name] = f.Lines()
		}
		out = append(out, rp)
	}
	return out
}

func (p c07) docCase(c *core.C, d model.Doc, seed uint64) {
	text := d.Render()
	want := docExpect(d)
	// self-check of the model against the independent reference reader
	if ref, ok := model.RefRead(text); !ok || len(ref) != len(want) {
		c.Failf("harness self-check: reference reader disagrees with the model on %q", text)
		return
	}
	for _, path := range c07Paths {
		for _, rk := range c07Readers {
			got, err := c07Read(path, rk, text, seed)
			if err != nil {
				c.Failf("%s over a %s reader failed on a well-formed document: %v\ndocument: %q", path, rk, err, text)
				continue
			}
			if diff := diffParas(got, want); diff != "" {
				c.Failf("%s over a %s reader: %s\ndocument: %q", path, rk, diff, text)
			}
			c.Cover("path:" + path)
			c.Cover("reader:" + rk)
		}
	}
	// the paragraphs returned are separate values: a caller who adds a field to one of them (Paragraph.Set) must
	// not change what another one lists
	if len(want) >= 2 {
		for _, path := range []string{"All", "Next"} {
			got, err := c07Read(path, "string", text, seed)
			if err != nil || len(got) != len(want) {
				continue
			}
			for i := range got {
				got[i].Set("X-Added-By-The-Caller", fmt.Sprint(i))
			}
			for i := range got {
				n := len(got[i].Order)
				if n == 0 || got[i].Order[n-1] != "X-Added-By-The-Caller" || got[i].Values["X-Added-By-The-Caller"] != fmt.Sprint(i) {
					c.Failf("after Set(\"X-Added-By-The-Caller\") on every paragraph returned by %s, paragraph %d lists %q\ndocument: %q", path, i, got[i].Order, text)
					break
				}
				trimmed := got[i]
				trimmed.Order = trimmed.Order[:n-1]
				if diff := diffParas([]control.Paragraph{{Order: trimmed.Order, Values: withoutKey(trimmed.Values, "X-Added-By-The-Caller")}}, want[i:i+1]); diff != "" {
					c.Failf("after Set(\"X-Added-By-The-Caller\") on every paragraph returned by %s (paragraphs share storage): paragraph %d: %s\ndocument: %q", path, i, diff, text)
					break
				}
			}
			c.Cover("caller:Set-on-returned-paragraphs")
		}
	}
	// a source that fails ONCE (a deadline that expired, an interrupted read) after k bytes and then carries on:
	// the failure must surface, or the result must be the right one - not a line silently split in two
	if len(text) > 2 {
		fr := core.NewRand(seed, "c07-transient")
		for try := 0; try < 3; try++ {
			k := 1 + fr.Intn(len(text)-1)
			for _, path := range []string{"Next", "All", "Unmarshal-slice"} {
				src := &onceFailingReader{s: text, k: k}
				var got []control.Paragraph
				var err error
				switch path {
				case "Next":
					var pr *control.ParagraphReader
					if pr, err = control.NewParagraphReader(src, nil); err == nil {
						for i := 0; i <= len(text); i++ {
							var pa *control.Paragraph
							if pa, err = pr.Next(); err != nil {
								break
							}
							got = append(got, *pa)
						}
						if err == io.EOF {
							err = nil
						}
					}
				case "All":
					var pr *control.ParagraphReader
					if pr, err = control.NewParagraphReader(src, nil); err == nil {
						got, err = pr.All()
					}
				default:
					var ps []pWrap
					err = control.Unmarshal(&ps, src)
					for i := range ps {
						got = append(got, ps[i].Paragraph)
					}
				}
				if err == nil {
					if diff := diffParas(got, want); diff != "" {
						c.Failf("%s over a source that failed once after %d of %d bytes reports no error and returns something else than the document: %s\ndocument: %q", path, k, len(text), diff, text)
					}
				}
				c.Cover("reader:fails-once-mid-stream")
			}
		}
	}
	nontrivial := d.CRLF != 0 || d.NoFinalNL
	if len(d.Paras) == 0 {
		c.Cover("doc:zero-paragraphs")
	}
	if d.LeadBlank > 0 {
		c.Cover("doc:leading-blank-lines")
	}
	if d.CRLF == 2 {
		c.Cover("doc:mixed-line-endings")
	}
	if len(d.LeadLoose) > 0 {
		c.Cover("doc:free-standing-comment-block")
	}
	for pi, pa := range d.Paras {
		if len(pa.Loose) > 0 && pa.Sep > 0 {
			c.Cover("doc:free-standing-comment-block")
		}
		if pa.Sep >= 2 {
			c.Cover("doc:blank-run>=2")
		}
		if d.CRLF == 1 && pi < len(d.Paras)-1 {
			c.Cover("doc:crlf-blank-separator")
		}
		for fi, f := range pa.Fields {
			if len(f.Comments) > 0 {
				nontrivial = true
			}
			if f.First == "" {
				c.Cover("doc:empty-first-line")
			}
			if len(f.First) >= 4096 {
				c.Cover("doc:line>=4096-bytes")
			}
			for ci, ct := range f.Cont {
				nontrivial = true
				if len(ct.Comments) > 0 && ci > 0 {
					c.Cover("doc:comment-between-continuations")
				}
				if ct.Content == "." {
					c.Cover("doc:dot-line")
				}
				if len(ct.Content) >= 4096 {
					c.Cover("doc:line>=4096-bytes")
				}
				if ct.Marker == "\t" {
					c.Cover("doc:tab-marker")
				}
				if strings.HasPrefix(ct.Content, " ") || strings.HasPrefix(ct.Content, "\t") {
					c.Cover("doc:indented-continuation")
				}
				if d.NoFinalNL && pi == len(d.Paras)-1 && fi == len(pa.Fields)-1 && ci == len(f.Cont)-1 && len(pa.Comments) == 0 {
					c.Cover("doc:no-final-newline-after-continuation")
				}
			}
		}
	}
	if nontrivial {
		c.Nontrivial()
	}
}

// invariant: for any input, every returned paragraph lists each field once
// and has a value for exactly the listed fields.
func (p c07) invCase(c *core.C, text string) {
	check := func(path string, ps []control.Paragraph) {
		for i, g := range ps {
			seen := map[string]bool{}
			for _, n := range g.Order {
				if seen[n] {
					c.Failf("%s: paragraph %d lists field %q twice (Order %q) for input %q", path, i, n, g.Order, text)
					return
				}
				seen[n] = true
				if _, ok := g.Values[n]; !ok {
					c.Failf("%s: paragraph %d lists %q without a value, input %q", path, i, n, text)
					return
				}
			}
			for k := range g.Values {
				if !seen[k] {
					c.Failf("%s: paragraph %d has a value for %q which it does not list (Order %q), input %q", path, i, k, g.Order, text)
					return
				}
			}
		}
	}
	any, anyErr := false, false
	for _, path := range c07Paths {
		ps, err := c07Read(path, "string", text, 1)
		check(path, ps)
		if len(ps) > 0 {
			any = true
		}
		if err != nil {
			anyErr = true
		}
	}
	if any {
		c.Cover("inv:paragraph-returned")
	}
	if anyErr {
		c.Cover("inv:error-returned")
	}
	if any || anyErr {
		c.Nontrivial()
	}
}

// corpusCase: real stanzas; the expectation comes from the independent reference reader.
func (p c07) corpusCase(c *core.C, text string) {
	want, ok := model.RefRead(text)
	if !ok || len(want) == 0 {
		c.Cover("corpus:reference-reader-rejects")
		return
	}
	for _, path := range c07Paths {
		for _, rk := range []string{"string", "chunks"} {
			got, err := c07Read(path, rk, text, uint64(len(text)))
			if err != nil {
				c.Failf("%s over a %s reader failed on stanzas of the dpkg database: %v", path, rk, err)
				continue
			}
			if diff := diffParas(got, want); diff != "" {
				c.Failf("%s over a %s reader on stanzas of the dpkg database: %s", path, rk, diff)
			}
		}
	}
	c.CoverN("corpus:dpkg-database-stanzas", int64(len(want)))
	c.Nontrivial()
}

// hugeReader streams n paragraphs of about 1 KiB each without holding them.
type hugeReader struct {
	n, i int
	buf  []byte
}

func hugePara(i int) string {
	return fmt.Sprintf("Package: p%d\nVersion: 1.%d-1\nSection: s%d\nDescription: paragraph %d\n %s\n .\n %s\n\n", i, i, i%7, i, strings.Repeat("x", 440), strings.Repeat("y", 440))
}

func (h *hugeReader) Read(p []byte) (int, error) {
	for len(h.buf) == 0 {
		if h.i >= h.n {
			return 0, io.EOF
		}
		h.buf = []byte(hugePara(h.i))
		h.i++
	}
	n := copy(p, h.buf)
	h.buf = h.buf[n:]
	return n, nil
}

func (p c07) hugeCase(c *core.C, mib int, via string) {
	n := mib << 20 / len(hugePara(100000))
	src := &hugeReader{n: n}
	count := 0
	check := func(pa control.Paragraph) bool {
		if pa.Values["Package"] != fmt.Sprintf("p%d", count) || len(pa.Order) != 4 || !strings.HasSuffix(strings.TrimRight(pa.Values["Description"], "\n"), strings.Repeat("y", 440)) {
			c.Failf("paragraph %d of a %d MiB stream (%d paragraphs) via %s came back as Package=%q, fields %q, description of %d bytes", count, mib, n, via, pa.Values["Package"], pa.Order, len(pa.Values["Description"]))
			return false
		}
		count++
		return true
	}
	var err error
	if via == "Next" {
		var pr *control.ParagraphReader
		if pr, err = control.NewParagraphReader(src, nil); err == nil {
			for {
				var pa *control.Paragraph
				if pa, err = pr.Next(); err != nil || !check(*pa) {
					break
				}
			}
		}
	} else {
		var dec *control.Decoder
		if dec, err = control.NewDecoder(src, nil); err == nil {
			for {
				var tp c07Typed
				if err = dec.Decode(&tp); err != nil || !check(tp.Paragraph) {
					break
				}
				if tp.Package != fmt.Sprintf("p%d", count-1) {
					c.Failf("typed Package of paragraph %d is %q", count-1, tp.Package)
					break
				}
			}
		}
	}
	if err != nil && err != io.EOF {
		c.Failf("reading a well-formed %d MiB stream via %s failed after %d paragraphs: %v", mib, via, count, err)
	} else if err == io.EOF && count != n {
		c.Failf("a well-formed stream of %d paragraphs (%d MiB) via %s ended after %d paragraphs without an error", n, mib, via, count)
	}
	c.Cover(fmt.Sprintf("doc:stream>=%dMiB", mib))
	c.Nontrivial()
}

var c07Pinned = []string{
	" orphan continuation\nFoo: bar\n", "Foo: a\nFoo: b\n", "Foo: a\n\n cont\nBar: x\n", "\tx\n", "Foo: a\nBar: b\nFoo: c\n\nFoo: d\n",
	"Foo: a\n .\n", ":\n", ": x\n x\n", "Foo:\n\n", "#c\n x\nFoo: a\n", "Foo: a\n#c\n x\n", "no colon here\n", "Foo: a\r\n\r\n b\r\n",
}

func corrupt(r *core.Rand, text string) string {
	lines := strings.SplitAfter(text, "\n")
	switch r.Intn(7) {
	case 0: // duplicate a line
		if len(lines) > 0 {
			i := r.Intn(len(lines))
			lines = append(lines[:i+1], append([]string{lines[i]}, lines[i+1:]...)...)
		}
	case 1: // remove a line
		if len(lines) > 1 {
			i := r.Intn(len(lines))
			lines = append(lines[:i], lines[i+1:]...)
		}
	case 2: // swap two lines
		if len(lines) > 1 {
			i, j := r.Intn(len(lines)), r.Intn(len(lines))
			lines[i], lines[j] = lines[j], lines[i]
		}
	case 3: // move a line to the front
		if len(lines) > 1 {
			i := r.Intn(len(lines))
			l := lines[i]
			lines = append(lines[:i], lines[i+1:]...)
			lines = append([]string{l}, lines...)
		}
	default:
		bs := []byte(strings.Join(lines, ""))
		if len(bs) == 0 {
			return " x\n"
		}
		alpha := " \t\n:#ab.\r"
		switch r.Intn(3) {
		case 0:
			bs[r.Intn(len(bs))] = r.PickByte(alpha)
		case 1:
			k := r.Intn(len(bs) + 1)
			bs = append(bs[:k], append([]byte{r.PickByte(alpha)}, bs[k:]...)...)
		default:
			k := r.Intn(len(bs))
			bs = append(bs[:k], bs[k+1:]...)
		}
		return string(bs)
	}
	return strings.Join(lines, "")
}

func (p c07) RunBatch(t *core.T, b core.Batch) {
	if concDispatch(p, t, b) {
		return
	}
	r := t.Rand(b.Name, fmt.Sprint(b.Arg))
	switch b.Name {
	case "volume":
		in := volInput(r.U64(), b.N)
		vc, _ := volDecode(in)
		t.Case("volume", in, func(c *core.C) { volumeFields(c, t, vc) })
	case "corpus":
		st := corpusStanzas()
		if len(st) == 0 {
			t.Cover("corpus:unavailable")
			return
		}
		for lo := b.Arg * 40; lo < len(st); lo += 4 * 40 {
			hi := min(lo+40, len(st))
			text := strings.Join(st[lo:hi], "\n")
			t.Case("corpus", []byte(text), func(c *core.C) { p.corpusCase(c, text) })
		}
		// machine-readable copyright files: every fourth in the quick tier
		docs := corpusDep5()
		step := tierN(t.Tier, 4, 1)
		for i := b.Arg * step; i < len(docs); i += 4 * step {
			text := docs[i]
			t.Case("corpus", []byte(text), func(c *core.C) { p.corpusCase(c, text); c.Cover("corpus:dep5-copyright-files") })
		}
	case "pinned":
		for _, s := range c07Pinned {
			s := s
			t.Case("inv", []byte(s), func(c *core.C) { p.invCase(c, s) })
		}
	case "doc":
		for i := 0; i < b.N; i++ {
			d := gen.Deb822Doc(r)
			seed := r.U64()
			in, _ := json.Marshal(map[string]interface{}{"doc": d, "seed": seed})
			t.Case("doc", in, func(c *core.C) { p.docCase(c, d, seed) })
		}
	case "huge":
		// a package index of 36 MiB and more (real Packages files are of that order), streamed
		mib := []int{36, 70, 140, 300}[b.Arg%4]
		via := []string{"Next", "Decoder.Decode-typed"}[(b.Arg+int(t.Seed))%2]
		t.Case("huge", []byte(fmt.Sprintf("%d/%s", mib, via)), func(c *core.C) { p.hugeCase(c, mib, via) })
	case "corrupt":
		for i := 0; i < b.N; i++ {
			s := corrupt(r, gen.Deb822Doc(r).Render())
			t.Case("inv", []byte(s), func(c *core.C) { p.invCase(c, s) })
		}
	case "raw":
		alpha := "ab: \t\n#.\r\n\n::"
		for i := 0; i < b.N; i++ {
			var s string
			if r.Chance(1, 6) {
				s = string(r.Bytes(r.Range(1, 24)))
			} else {
				s = r.Str(alpha, r.Range(1, 24))
			}
			t.Case("inv", []byte(s), func(c *core.C) { p.invCase(c, s) })
		}
	}
}

func (p c07) RunCase(t *core.T, kind string, input []byte) {
	switch kind {
	case "volume":
		if vc, ok := volDecode(input); ok {
			t.Case(kind, input, func(c *core.C) { volumeFields(c, t, vc) })
		}
	case "doc":
		var cs struct {
			Doc  model.Doc `json:"doc"`
			Seed uint64    `json:"seed"`
		}
		if json.Unmarshal(input, &cs) == nil {
			t.Case(kind, input, func(c *core.C) { p.docCase(c, cs.Doc, cs.Seed) })
		}
	case "inv":
		t.Case(kind, input, func(c *core.C) { p.invCase(c, string(input)) })
	case "corpus":
		t.Case(kind, input, func(c *core.C) { p.corpusCase(c, string(input)) })
	case "huge":
		var mib int
		var via string
		if parts := strings.SplitN(string(input), "/", 2); len(parts) == 2 {
			fmt.Sscanf(parts[0], "%d", &mib)
			via = parts[1]
			if mib > 0 && mib <= 1024 {
				t.Case(kind, input, func(c *core.C) { p.hugeCase(c, mib, via) })
			}
		}
	}
}

func withoutKey(m map[string]string, k string) map[string]string {
	out := make(map[string]string, len(m))
	for kk, v := range m {
		if kk != k {
			out[kk] = v
		}
	}
	return out
}
