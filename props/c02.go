package props

import (
	"fmt"
	"sort"
	"strings"

	"pault.ag/go/debian/version"

	"verif/internal/core"
	"verif/internal/gen"
	"verif/internal/model"
)

// C02 — Compare is a total preorder; sorting is well defined (DESIGN §4 C02).
type c02 struct{}

func init() { core.Register(c02{}) }

func (c02) ID() string    { return "C02" }
func (c02) Level() string { return "exploration" }
func (c02) Rule() string {
	return "all ordered triples (a,b,c) of a version pool (K=162 quick, 242 thorough: special equivalence-class mates, tilde chains, long digit runs, epochs, all strings of length<=1 over 019Aa~+-.: as upstream and revision, seeded random and near versions) checked for reflexivity, antisymmetry, transitivity and congruence of equal elements using only version.Compare; slices of 0..200 pool elements sorted with sort.Sort(version.Slice) from 3 shuffles. Non-trivial = triple with pairwise different texts, or slice with >=2 distinct elements; distinct by hash."
}
func (c02) Assumptions() []string {
	return []string{"no reference order is used: laws only", "sort.Sort from the Go standard library"}
}
func (c02) Exhaustive(tier string) bool { return true }

func (c02) Batches(tier string, seed uint64) []core.Batch {
	b := spread("triples", 16, 0)
	b = append(b, spread("sort", 8, tierN(tier, 40, 400))...)
	b = append(b, core.Batch{Name: "volume", N: tierN(tier, 1_000_000, 12_000_000)}) // one case, one process: see volume.go
	b = append(b, core.Batch{Name: "sortmix", N: tierN(tier, 1600, 8000)})           // 8 goroutines sort their own (disjoint) slices at once
	return append(b, conc(tierN(tier, 6, 40), "sort")...)
}

func (c02) Mandatory(tier string) []string {
	m := []string{"equiv-textually-different-pair", "sorted-slices", "sort-equivalent-runs", "volume:pairs-compared-in-one-process", "conc:disjoint-slices-sorted-by-8-goroutines-at-once"}
	for _, a := range []int{-1, 0, 1} {
		for _, b := range []int{-1, 0, 1} {
			for _, c := range []int{-1, 0, 1} {
				if consistent(a, b, c) {
					m = append(m, fmt.Sprintf("pattern:%s/%s/%s", signName(a), signName(b), signName(c)))
				}
			}
		}
	}
	return m
}

// consistent: is (sgn ab, sgn bc, sgn ac) realisable by a total preorder?
func consistent(ab, bc, ac int) bool {
	for x := 0; x < 3; x++ {
		for y := 0; y < 3; y++ {
			for z := 0; z < 3; z++ {
				if model.Sign(x-y) == ab && model.Sign(y-z) == bc && model.Sign(x-z) == ac {
					return true
				}
			}
		}
	}
	return false
}

var c02Specials = []string{
	"1.0", "1.00", "1.0-0", "0:1.0", "1.0-00", "01.0", "1.0~rc1", "1.0+b1", "1.0-1",
	"1~~", "1~~a", "1~", "1", "1a", "1+", "1.", "1-", "1~~~", "1~a~",
	"9", "10", "09", "18446744073709551615", "18446744073709551616", "018446744073709551616", "99999999999999999999999999",
	"10000000000000000000", "16000000000000000000", "22000000000000000000", "9223372036854775807", "9223372036854775808",
	"09223372036854775809", "27670116110564327424", "1.0+git10000000000000000000", "1.0+git16000000000000000000", "1.0+git22000000000000000000",
	"1-9223372036854775808", "1-18446744073709551617", "1-1", "1-10", "1-100", "5", "50~rc1", "50", "2.4", "2.4-1", "2.4-3",
	"2-1-1", "3-1", "2-1", "1-3-1", "2-0", "1-3-0", "2-1-0", "3-0", "1-2-3-4", "1-2", "3-4",
	"9223372036854775807:1", "9223372036854775808:1", "18446744073709551615:1", "9223372036854775809:0",
	// revisions that strconv would read as signed numbers; 20-digit components in the dotted-number shape;
	// a colon in the upstream part meeting a digit or the end (round 4)
	"1.0-+5", "1.0-5", "1.0-05", "1.0-+", "1.0-5.", "1.0-5+", "1.0-+05", "1.0-+5.",
	"2-18446744073709551617", "2-1+b1", "2-1.0", "1.10000000000000000000a", "1.20000000000000000000", "1.1553255926290448384", "1.18446744073709551617", "1.1a",
	"0:1a:", "0:1a", "0:1a5", "0:1a:-1", "0:1a5-1", "0:1a-1", "0:1:2-1", "0:1:", "0:1:5",
	// zeros in front of a non-digit at the start of a revision or of an upstream tail (round 7): "0~rc1" is the
	// number 0 followed by ~rc1, "~rc1" starts with the tilde itself
	"1.0-0~rc1", "1.0-~rc1", "1.0-0", "2-0a", "2-a", "2-00", "2-0~", "2-~", "3.0a", "3.a", "3.00a",
	// the digit 9 (the last of its range) against letters and longer numbers (round 8)
	"1.9", "1.a", "1.10", "1.8", "2-9", "2-a", "2-10",
	"1:0", "1:1.0", "2:0", "1.0a", "1.0A", "1.0.", "1.0+", "1.0~", "1.0-a", "1.0-+", "1.0-~", "1a1", "1a01", "1a~", "1aa",
}

func c02Pool(tier string, seed uint64) []model.Ver {
	var pool []model.Ver
	seen := map[string]bool{}
	add := func(v model.Ver) {
		k := encVer(v)
		if !seen[k] {
			seen[k] = true
			pool = append(pool, v)
		}
	}
	for _, s := range c02Specials {
		add(splitText(s))
	}
	K := tierN(tier, 162, 242)
	if tier == "thorough" {
		for _, s := range gen.AllStrings(gen.ClassAlphabet, 1) {
			add(model.Ver{Upstream: s})
			add(model.Ver{Upstream: "1", Revision: s})
		}
	}
	r := core.NewRand(seed, "C02", "pool")
	base := gen.Version(r)
	for len(pool) < K {
		switch r.Intn(3) {
		case 0:
			add(gen.Version(r).V)
		case 1:
			add(gen.Near(r, base).V)
		default:
			base = gen.Near(r, base)
			add(base.V)
		}
	}
	return pool[:K]
}

func (p c02) RunBatch(t *core.T, b core.Batch) {
	if concDispatch(p, t, b) {
		return
	}
	switch b.Name {
	case "sortmix":
		in := volInput(t.Rand("sortmix").U64(), b.N)
		vc, _ := volDecode(in)
		t.Case("sortmix", in, func(c *core.C) { sortMix(c, t, vc) })
	case "volume":
		in := volInput(t.Rand("volume").U64(), b.N)
		vc, _ := volDecode(in)
		t.Case("volume", in, func(c *core.C) { volumeCompare(c, t, vc, false) })
	case "triples":
		pool := c02Pool(t.Tier, t.Seed)
		K := len(pool)
		lib := make([]version.Version, K)
		for i, v := range pool {
			lib[i] = libVer(v)
		}
		M := make([][]int8, K)
		for i := range M {
			M[i] = make([]int8, K)
			for j := range M[i] {
				M[i][j] = int8(model.Sign(version.Compare(lib[i], lib[j])))
			}
		}
		for i := b.Arg; i < K; i += 16 {
			t.Case("triple-row", []byte(fmt.Sprint(i)), func(c *core.C) {
				pat := map[[3]int8]int64{}
				for j := 0; j < K; j++ {
					// determinism of the compare itself
					if int8(model.Sign(version.Compare(lib[i], lib[j]))) != M[i][j] {
						p.report(t, pool, i, j, j, "Compare gives different signs on repeated calls")
					}
					if M[i][j] == 0 && encVer(pool[i]) != encVer(pool[j]) {
						c.Cover("equiv-textually-different-pair")
					}
					for k := 0; k < K; k++ {
						ab, bc, ac := M[i][j], M[j][k], M[i][k]
						pat[[3]int8{ab, bc, ac}]++
						p.laws(t, pool, M, i, j, k)
						if i != j && j != k && i != k {
							t.NontrivialKey("triple", []byte(fmt.Sprintf("%d/%d/%d", i, j, k)))
						}
					}
				}
				t.Light(int64(K*K) - 1)
				for k, n := range pat {
					t.CoverN(fmt.Sprintf("pattern:%s/%s/%s", signName(int(k[0])), signName(int(k[1])), signName(int(k[2]))), n)
				}
			})
		}
	case "sort":
		pool := c02Pool(t.Tier, t.Seed)
		r := t.Rand("sort", fmt.Sprint(b.Arg))
		for n := 0; n < b.N; n++ {
			ln := r.Range(0, 200)
			if n < 4 {
				ln = n // lengths 0..3 always
			}
			span := r.Range(1, len(pool))
			idx := make([]int, ln)
			var enc []string
			for i := range idx {
				idx[i] = r.Intn(span)
				enc = append(enc, encVer(pool[idx[i]]))
			}
			sseed := r.U64()
			in := fmt.Sprintf("%d\x1d%s", sseed, strings.Join(enc, "\x1e"))
			vs := make([]model.Ver, ln)
			for i := range idx {
				vs[i] = pool[idx[i]]
			}
			t.Case("sort", []byte(in), func(c *core.C) { p.sortCase(c, vs, sseed) })
		}
	}
}

func (c02) report(t *core.T, pool []model.Ver, i, j, k int, msg string) {
	in := encVer(pool[i]) + "\x1e" + encVer(pool[j]) + "\x1e" + encVer(pool[k])
	t.Report("triple", []byte(in), "%s: a=%v b=%v c=%v", msg, libVer(pool[i]), libVer(pool[j]), libVer(pool[k]))
}

func (p c02) laws(t *core.T, pool []model.Ver, M [][]int8, i, j, k int) {
	ab, bc, ac := M[i][j], M[j][k], M[i][k]
	if i == j && ab != 0 {
		p.report(t, pool, i, j, k, "Compare(a,a) != 0")
	}
	if ab != -M[j][i] {
		p.report(t, pool, i, j, k, fmt.Sprintf("sign(Compare(a,b))=%d but sign(Compare(b,a))=%d", ab, M[j][i]))
	}
	if ab <= 0 && bc <= 0 && ac > 0 {
		p.report(t, pool, i, j, k, "a<=b and b<=c but a>c")
	}
	if ab == 0 && ac != bc {
		p.report(t, pool, i, j, k, fmt.Sprintf("a equals b but sign(Compare(a,c))=%d differs from sign(Compare(b,c))=%d", ac, bc))
	}
}

type countingSlice struct {
	version.Slice
	less, swap int64
}

func (s *countingSlice) Less(i, j int) bool { s.less++; return s.Slice.Less(i, j) }
func (s *countingSlice) Swap(i, j int)      { s.swap++; s.Slice.Swap(i, j) }

func (p c02) sortCase(c *core.C, vs []model.Ver, sseed uint64) {
	r := core.NewRand(sseed, "shuffle")
	var results [][]version.Version
	count := map[string]int{}
	for _, v := range vs {
		count[encVer(v)]++
	}
	for round := 0; round < 3; round++ {
		perm := r.Perm(len(vs))
		s := make(version.Slice, len(vs))
		for i, pi := range perm {
			s[i] = libVer(vs[pi])
		}
		cs := &countingSlice{Slice: s}
		sort.Sort(cs)
		c.Cover("sorted-slices")
		// permutation of the input multiset
		got := map[string]int{}
		for _, v := range s {
			got[encVer(modVer(v))]++
		}
		if len(s) != len(vs) || fmt.Sprint(got) != fmt.Sprint(count) {
			c.Failf("sorted slice is not a permutation of the input (%d in, %d out)", len(vs), len(s))
		}
		for i := 0; i < len(s); i++ {
			for j := i + 1; j < len(s); j++ {
				if version.Compare(s[i], s[j]) > 0 {
					c.Failf("after sort.Sort: element %d (%v) > element %d (%v)", i, s[i], j, s[j])
					i = len(s)
					break
				}
			}
		}
		if n := len(vs); n > 1 {
			c.Cover("less-calls")
			c.Cover(fmt.Sprintf("sort-len-bucket:%d", bucket(n)))
		}
		results = append(results, s)
	}
	for round := 1; round < len(results); round++ {
		for i := range results[0] {
			if version.Compare(results[0][i], results[round][i]) != 0 {
				c.Failf("two shuffles of the same multiset sort to non-equivalent elements at position %d: %v vs %v", i, results[0][i], results[round][i])
				break
			}

		}
	}
	// (decided on the input, not on what the sort made of it) the multiset holds differently spelled equal versions
equiv:
	for i := range vs {
		for j := i + 1; j < len(vs); j++ {
			if sgn, _ := model.RefCmp(vs[i], vs[j]); sgn == 0 && encVer(vs[i]) != encVer(vs[j]) {
				c.Cover("sort-equivalent-runs")
				break equiv
			}
		}
	}
	if len(count) >= 2 {
		c.Nontrivial()
	}
}

func bucket(n int) int {
	switch {
	case n < 4:
		return 0
	case n < 20:
		return 4
	case n < 100:
		return 20
	}
	return 100
}

func (p c02) RunCase(t *core.T, kind string, input []byte) {
	switch kind {
	case "sortmix":
		if vc, ok := volDecode(input); ok {
			t.Case(kind, input, func(c *core.C) { sortMix(c, t, vc) })
		}
	case "volume":
		if vc, ok := volDecode(input); ok {
			t.Case(kind, input, func(c *core.C) { volumeCompare(c, t, vc, false) })
		}
	case "triple":
		parts := strings.Split(string(input), "\x1e")
		if len(parts) != 3 {
			return
		}
		pool := []model.Ver{decVer(parts[0]), decVer(parts[1]), decVer(parts[2])}
		M := make([][]int8, 3)
		for i := range M {
			M[i] = make([]int8, 3)
			for j := range M[i] {
				M[i][j] = int8(model.Sign(version.Compare(libVer(pool[i]), libVer(pool[j]))))
			}
		}
		t.Case(kind, input, func(c *core.C) {
			for i := 0; i < 3; i++ {
				for j := 0; j < 3; j++ {
					for k := 0; k < 3; k++ {
						p.laws(t, pool, M, i, j, k)
					}
				}
			}
		})
	case "sort":
		parts := strings.SplitN(string(input), "\x1d", 2)
		if len(parts) != 2 {
			return
		}
		var sseed uint64
		fmt.Sscanf(parts[0], "%d", &sseed)
		var vs []model.Ver
		if parts[1] != "" {
			for _, e := range strings.Split(parts[1], "\x1e") {
				vs = append(vs, decVer(e))
			}
		}
		t.Case(kind, input, func(c *core.C) { p.sortCase(c, vs, sseed) })
	case "triple-row":
		// a row is re-run through its batch; nothing to do for a bare index
	}
}
