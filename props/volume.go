package props

import (
	"encoding/json"
	"fmt"
	"sort"
	"strconv"
	"strings"
	"sync"

	"pault.ag/go/debian/control"
	"pault.ag/go/debian/dependency"
	"pault.ag/go/debian/version"

	"verif/internal/core"
	"verif/internal/model"
)

// Volume batches: what a call returns must not depend on what the same process asked the library before.
// Anything the library keeps between calls (memo tables, interned strings, pools) is filled by hundreds of
// thousands to millions of DIFFERENT inputs inside ONE case of ONE process, every answer being compared with what
// the input itself says.  The inputs are plain and cheap to judge (dotted numbers, ordinary field names): the point
// is their number and that they are all different, not their shape.  The case input names seed and count, so a
// replay rebuilds the same history.

type volCase struct {
	Seed uint64 `json:"seed"`
	N    int    `json:"n"`
}

func volInput(seed uint64, n int) []byte {
	in, _ := json.Marshal(volCase{Seed: seed, N: n})
	return in
}

func volDecode(input []byte) (volCase, bool) {
	var v volCase
	if json.Unmarshal(input, &v) != nil || v.N <= 0 || v.N > 200_000_000 {
		return v, false
	}
	return v, true
}

var volSuffix = [...]string{"", "", "", "+b1", "+dfsg", "~rc1", "+git20240101", "a", ".0", "+really1"}
var volRevSuffix = [...]string{"", "", "", "ubuntu1", "+b2", "~bpo12+1", "+deb12u1", ".1"}

// volVersion: a version in the everyday shape [epoch:]x.y.z[suffix][-r[suffix]], its parts known by construction.
func volVersion(r *core.Rand) (text string, v model.Ver) {
	var sb strings.Builder
	sb.Grow(24)
	sb.WriteString(strconv.Itoa(r.Intn(12)))
	sb.WriteByte('.')
	sb.WriteString(strconv.Itoa(r.Intn(100)))
	sb.WriteByte('.')
	sb.WriteString(strconv.Itoa(r.Intn(60)))
	sb.WriteString(volSuffix[r.Intn(len(volSuffix))])
	v.Upstream = sb.String()
	if r.Intn(8) != 0 {
		v.Revision = strconv.Itoa(r.Intn(12)) + volRevSuffix[r.Intn(len(volRevSuffix))]
	}
	if r.Intn(6) == 0 {
		v.Epoch = uint64(1 + r.Intn(3))
	}
	text = v.Upstream
	if v.Revision != "" {
		text += "-" + v.Revision
	}
	if v.Epoch != 0 {
		text = strconv.FormatUint(v.Epoch, 10) + ":" + text
	}
	return text, v
}

// volumeParse: n texts are parsed one after the other; each result must be what its own text says, and two
// parsed versions must compare the way the reference comparator orders what was written.
func volumeParse(c *core.C, t *core.T, vc volCase, compare bool) {
	r := core.NewRand(vc.Seed, "volume-parse")
	var prevText string
	var prevWant model.Ver
	var prevGot version.Version
	for i := 0; i < vc.N; i++ {
		text, want := volVersion(r)
		got, err := version.Parse(text)
		if err != nil {
			c.Failf("Parse(%q) fails (%v) as call %d of this process; the text is an ordinary version", text, err, i+1)
			return
		}
		if uint64(got.Epoch) != want.Epoch || got.Version != want.Upstream || got.Revision != want.Revision {
			c.Failf("Parse(%q) = {Epoch:%d Version:%q Revision:%q} as call %d of this process (a fresh process parses it as written: the result depends on what was parsed before)",
				text, got.Epoch, got.Version, got.Revision, i+1)
			return
		}
		if i%8 == 0 { // (the rendering need not be the text that was read; it must read back as the same value)
			if back, err := version.Parse(got.String()); err != nil || back != got {
				c.Failf("Parse(%q).String() = %q, which reads back as %+v (err %v), as call %d of this process", text, got.String(), back, err, i+1)
				return
			}
		}
		if compare && i > 0 {
			w, _ := model.RefCmp(prevWant, want)
			if g := model.Sign(version.Compare(prevGot, got)); g != w {
				c.Failf("Compare(Parse(%q), Parse(%q)) has sign %d, reference %d (calls %d and %d of this process)", prevText, text, g, w, i, i+1)
				return
			}
		}
		prevText, prevWant, prevGot = text, want, got
	}
	t.Light(int64(vc.N) - 1)
	c.CoverN("volume:versions-parsed-in-one-process", int64(vc.N))
	c.Nontrivial()
}

// volumeCompare: n different pairs compared both ways round in one process: the two answers must be each other's
// negation, a repeated call must repeat the answer, and (withRef) the sign must be the reference comparator's.
func volumeCompare(c *core.C, t *core.T, vc volCase, withRef bool) {
	r := core.NewRand(vc.Seed, "volume-compare")
	for i := 0; i < vc.N; i++ {
		ta, wa := volVersion(r)
		tb, wb := volVersion(r)
		a, b := libVer(wa), libVer(wb)
		ab := model.Sign(version.Compare(a, b))
		ba := model.Sign(version.Compare(b, a))
		if ab != -ba {
			c.Failf("Compare(%s, %s) has sign %d and Compare(%s, %s) has sign %d (pair %d compared in this process; in a fresh process the two are each other's negation)", ta, tb, ab, tb, ta, ba, i+1)
			return
		}
		if withRef {
			if w, rule := model.RefCmp(wa, wb); w != ab {
				c.Failf("Compare(%s, %s) has sign %d, reference %d by rule %s (pair %d compared in this process)", ta, tb, ab, w, rule, i+1)
				return
			}
		} else if i%4 == 0 {
			if again := model.Sign(version.Compare(a, b)); again != ab {
				c.Failf("Compare(%s, %s) has sign %d, and %d when asked again (pair %d compared in this process)", ta, tb, ab, again, i+1)
				return
			}
		}
	}
	t.Light(int64(vc.N) - 1)
	c.CoverN("volume:pairs-compared-in-one-process", int64(vc.N))
	c.Nontrivial()
}

var volWords = [...]string{"Package", "Source", "Version", "Upstream", "Contact", "Name", "Provides", "Triggers", "Sha256", "Build", "Depends", "Indep",
	"Arch", "Vcs", "Browser", "Git", "Homepage", "Testsuite", "Python", "Ruby", "Go", "Import", "Path", "Original", "Maintainer", "Description", "md5",
	"Tag", "Section", "Priority", "Essential", "Installed", "Size", "Multi", "Built", "Using", "Static", "Cargo", "Lua", "Versions", "Comment", "Files", "Excluded"}

// volumeFields: paragraphs whose field names are all different, n names in all, read in one process (several
// readers one after the other): every paragraph must list exactly the names written in it, with their values.
func volumeFields(c *core.C, t *core.T, vc volCase) {
	r := core.NewRand(vc.Seed, "volume-fields")
	used := make(map[string]bool, vc.N)
	const perPara, perDoc = 24, 400
	done := 0
	for done < vc.N {
		var sb strings.Builder
		var names [][]string
		for p := 0; p < perDoc && done < vc.N; p++ {
			var ns []string
			for f := 0; f < perPara && done < vc.N; f++ {
				var name string
				for {
					name = "X-" + volWords[r.Intn(len(volWords))] + "-" + volWords[r.Intn(len(volWords))] + "-" + volWords[r.Intn(len(volWords))]
					if r.Bool() {
						name += "-" + volWords[r.Intn(len(volWords))]
					}
					if used[name] {
						name += "-" + strconv.Itoa(done)
					}
					if !used[name] {
						break
					}
				}
				used[name] = true
				ns = append(ns, name)
				sb.WriteString(name)
				sb.WriteString(": v")
				sb.WriteString(strconv.Itoa(done))
				sb.WriteByte('\n')
				done++
			}
			names = append(names, ns)
			sb.WriteByte('\n')
		}
		pr, err := control.NewParagraphReader(strings.NewReader(sb.String()), nil)
		if err != nil {
			c.Failf("NewParagraphReader: %v", err)
			return
		}
		paras, err := pr.All()
		if err != nil {
			c.Failf("reading a document of %d paragraphs with all-different field names fails after %d names were read in this process: %v (each paragraph on its own reads fine in a fresh process)", len(names), done, err)
			return
		}
		if len(paras) != len(names) {
			c.Failf("document of %d paragraphs read as %d", len(names), len(paras))
			return
		}
		for k, para := range paras {
			if len(para.Order) != len(names[k]) || len(para.Values) != len(names[k]) {
				c.Failf("paragraph written with fields %q lists %q and has %d values (after about %d different names were read in this process)", names[k], para.Order, len(para.Values), done)
				return
			}
			for f, name := range names[k] {
				if para.Order[f] != name {
					c.Failf("field written as %q is listed as %q (after about %d different names were read in this process; a fresh process lists it as written)", name, para.Order[f], done)
					return
				}
				if v, ok := para.Values[name]; !ok || !strings.HasPrefix(v, "v") {
					c.Failf("field %q has value %q, present=%v", name, v, ok)
					return
				}
			}
		}
	}
	t.Light(int64(vc.N) - 1)
	c.CoverN("volume:different-field-names-read-in-one-process", int64(vc.N))
	c.Nontrivial()
}

var volOps = [...]string{">=", "<<", "=", ">>", "<="}
var volArches = [...]string{"amd64", "i386", "arm64", "armhf", "s390x", "riscv64", "linux-any", "any-amd64", "kfreebsd-any", "hurd-i386"}

// volumeDeps: n different dependency fields parsed in one process; each must come back as the relations,
// alternatives, names, constraints and architecture lists written in it.
func volumeDeps(c *core.C, t *core.T, vc volCase) {
	r := core.NewRand(vc.Seed, "volume-deps")
	type poss struct {
		name, op, ver string
		arches        []string
		not           bool
	}
	for i := 0; i < vc.N; i++ {
		var sb strings.Builder
		var want [][]poss
		nrel := 1 + r.Intn(3)
		for k := 0; k < nrel; k++ {
			if k > 0 {
				sb.WriteString(", ")
			}
			var rel []poss
			nalt := 1 + r.Intn(2)
			for a := 0; a < nalt; a++ {
				if a > 0 {
					sb.WriteString(" | ")
				}
				p := poss{name: "lib" + volWords[r.Intn(len(volWords))] + strconv.Itoa(r.Intn(400)) + "-" + volWords[r.Intn(len(volWords))]}
				p.name = strings.ToLower(p.name)
				sb.WriteString(p.name)
				if r.Intn(3) != 0 {
					p.op = volOps[r.Intn(len(volOps))]
					p.ver, _ = volVersion(r)
					sb.WriteString(" (" + p.op + " " + p.ver + ")")
				}
				if r.Intn(6) == 0 {
					p.not = r.Bool()
					na := 1 + r.Intn(2)
					sb.WriteString(" [")
					for x := 0; x < na; x++ {
						if x > 0 {
							sb.WriteByte(' ')
						}
						ar := volArches[(r.Intn(5)*2+x)%len(volArches)]
						p.arches = append(p.arches, ar)
						if p.not {
							sb.WriteByte('!')
						}
						sb.WriteString(ar)
					}
					sb.WriteByte(']')
				}
				rel = append(rel, p)
			}
			want = append(want, rel)
		}
		text := sb.String()
		got, err := dependency.Parse(text)
		if err != nil {
			c.Failf("Parse(%q) fails (%v) as call %d of this process; the field is an ordinary one", text, err, i+1)
			return
		}
		bad := len(got.Relations) != len(want)
		for k := 0; !bad && k < len(want); k++ {
			ps := got.Relations[k].Possibilities
			bad = len(ps) != len(want[k])
			for a := 0; !bad && a < len(want[k]); a++ {
				w, g := want[k][a], ps[a]
				bad = g.Name != w.name || (g.Version == nil) != (w.op == "") || (g.Architectures == nil || len(g.Architectures.Architectures) == 0) != (len(w.arches) == 0) || g.Arch != nil || g.Substvar
				if !bad && g.Version != nil {
					bad = g.Version.Operator != w.op || g.Version.Number != w.ver
				}
				if !bad && len(w.arches) > 0 {
					bad = g.Architectures.Not != w.not || len(g.Architectures.Architectures) != len(w.arches)
					for x := 0; !bad && x < len(w.arches); x++ {
						// (the triple, not its spelling: how an architecture renders is C05's fix-point business)
						m, ok := model.DenoteArch(w.arches[x])
						a := g.Architectures.Architectures[x]
						bad = !ok || a.ABI != m.ABI || a.OS != m.OS || a.CPU != m.CPU
					}
				}
			}
		}
		if bad {
			c.Failf("Parse(%q) = %s as call %d of this process (a fresh process returns what is written: the result depends on what was parsed before)", text, normDep(got), i+1)
			return
		}
	}
	t.Light(int64(vc.N) - 1)
	c.CoverN("volume:dependency-fields-parsed-in-one-process", int64(vc.N))
	c.Nontrivial()
}

// sortMix: 8 goroutines, each sorting slices of its own (nobody else touches them) with the provided adapter, all
// at the same time; afterwards every result must be a non-decreasing permutation of what went in.  Between the
// start and the join no goroutine touches anything shared with another one (the race detector of the thorough tier
// would take harness synchronisation for an ordering), so whatever couples them is the library's.
func sortMix(c *core.C, t *core.T, vc volCase) {
	const G = 8
	type outcome struct{ msg string }
	res := make([]outcome, G)
	var wg sync.WaitGroup
	for g := 0; g < G; g++ {
		wg.Add(1)
		go func(g int) {
			defer wg.Done()
			r := core.NewRand(vc.Seed, "sortmix", fmt.Sprint(g))
			for k := 0; k < vc.N/G && res[g].msg == ""; k++ {
				n := 50 + r.Intn(400)
				in := make(version.Slice, n)
				count := map[version.Version]int{}
				for i := range in {
					_, w := volVersion(r)
					in[i] = libVer(w)
					count[in[i]]++
				}
				sort.Sort(in)
				for i := range in {
					count[in[i]]--
					if i > 0 && version.Compare(in[i-1], in[i]) > 0 {
						res[g].msg = fmt.Sprintf("goroutine %d, slice %d: after sort.Sort element %d (%v) > element %d (%v)", g, k, i-1, in[i-1], i, in[i])
					}
				}
				for v, d := range count {
					if d != 0 && res[g].msg == "" {
						res[g].msg = fmt.Sprintf("goroutine %d, slice %d of %d elements: after sort.Sort the slice is not a permutation of what went in (%v occurs %+d times too often)", g, k, n, v, -d)
					}
				}
			}
		}(g)
	}
	wg.Wait()
	for _, o := range res {
		if o.msg != "" {
			c.Failf("while 8 goroutines sorted slices of their own at once: %s", o.msg)
		}
	}
	t.Light(int64(vc.N) - 1)
	c.CoverN("conc:disjoint-slices-sorted-by-8-goroutines-at-once", int64(vc.N))
	c.Nontrivial()
}

// satMix: 8 goroutines ask SatisfiedBy about constraints with DIFFERENT numbers at the same time (each goroutine
// alternates between a few of its own); every answer must be the reference comparator's.
func satMix(c *core.C, t *core.T, vc volCase) {
	const G = 8
	res := make([]string, G)
	var wg sync.WaitGroup
	for g := 0; g < G; g++ {
		wg.Add(1)
		go func(g int) {
			defer wg.Done()
			r := core.NewRand(vc.Seed, "satmix", fmt.Sprint(g))
			type num struct {
				text string
				v    model.Ver
			}
			var mine []num
			for k := 0; k < 3; k++ {
				text, v := volVersion(r)
				mine = append(mine, num{text, v})
			}
			for k := 0; k < vc.N/G && res[g] == ""; k++ {
				n := mine[(k/7)%len(mine)] // a run of 7 questions about one number, then the next
				_, v := volVersion(r)
				op := volOps[r.Intn(len(volOps))]
				got := dependency.VersionRelation{Operator: op, Number: n.text}.SatisfiedBy(libVer(v))
				sign, _ := model.RefCmp(v, n.v)
				want := map[string]bool{"<<": sign < 0, "<=": sign <= 0, "=": sign == 0, ">=": sign >= 0, ">>": sign > 0}[op]
				if got != want {
					res[g] = fmt.Sprintf("goroutine %d, question %d: (%s %s).SatisfiedBy(%v) = %v, reference %v", g, k, op, n.text, v, got, want)
				}
			}
		}(g)
	}
	wg.Wait()
	for _, m := range res {
		if m != "" {
			c.Failf("while 8 goroutines asked about different numbers at once: %s", m)
		}
	}
	t.Light(int64(vc.N) - 1)
	c.CoverN("conc:different-numbers-asked-by-8-goroutines-at-once", int64(vc.N))
	c.Nontrivial()
}
