package props

import (
	"bytes"
	"encoding/json"
	"fmt"
	"math"
	"reflect"
	"strings"

	"pault.ag/go/debian/control"
	"pault.ag/go/debian/dependency"
	"pault.ag/go/debian/version"

	"verif/internal/core"
	"verif/internal/gen"
	"verif/internal/model"
)

// C09 — struct marshal/unmarshal round-trips; unknown fields pass through.
type c09 struct{}

func init() { core.Register(c09{}) }

func (c09) ID() string    { return "C09" }
func (c09) Level() string { return "exploration" }
func (c09) Rule() string {
	return "probe struct types declared in the harness cover string/int/uint/bool, []string with default, ',', ', ' and newline delimiters and strip sets, []int, []version.Version, []dependency.Arch, version.Version, dependency.Dependency, dependency.Arch, checksum lists, control:\"name\", required:\"true\" (scalars and lists, also empty), control:\"-\", multiline:\"true\", nil and non-nil pointers (marshal only). Values are drawn per kind (single-line trimmed strings, full int range, uint beyond 2^63, list elements free of delimiter/strip characters, multi-line values in the reader's canonical form); Marshal then Unmarshal into a fresh value must reproduce the value field by field; optional fields that render as empty text must be absent, required ones present, and a document lacking a required field must be rejected. Pass-through: documents interleaving known and X- fields in random order are unmarshalled into a struct embedding Paragraph, some known fields overwritten, some cleared, some newly set, marshalled, and the output read with the model reader: unknown fields unchanged and in original order, known fields equal to the struct's current values, cleared optional fields absent. Non-trivial = value with at least one non-zero field; distinct by hash."
}
func (c09) Assumptions() []string {
	return []string{"int 0 and bool false render as non-empty text ('0', 'no') and are therefore not expected to be omitted; nested architecture fields always hold a real architecture (the zero Arch is not a value of the type's domain)", "pointer fields are only required not to panic when marshalled"}
}

func (c09) Batches(tier string, seed uint64) []core.Batch {
	var b []core.Batch
	for _, k := range []string{"scalars", "lists", "nested", "ptr", "required", "pass", "setupdate"} {
		b = append(b, spread(k, 3, tierN(tier, 3000, 15000))...)
	}
	return append(b, conc(tierN(tier, 150, 1000), "lists", "scalars", "nested", "pass")...)
}

func (c09) Mandatory(tier string) []string {
	return []string{"kind:string", "kind:int-negative", "kind:int-zero", "kind:uint>=2^63", "kind:bool-true", "kind:bool-false", "tag:control-name", "tag:skip", "tag:multiline",
		"tag:required-present", "tag:required-empty-written", "required-missing-rejected", "list:default-delim", "list:default-delim-odd-interior-element", "list:comma", "list:comma-space", "list:newline", "list:empty-omitted",
		"list:required-empty", "list:ints", "list:versions", "list:archs", "nested:version", "nested:dependency", "nested:arch", "nested:checksums", "nested:variable-reused-for-the-next-paragraph", "ptr:nil", "ptr:non-nil",
		"pass:unknown-kept", "pass:overwritten", "pass:cleared", "pass:newly-set", "pass:documents", "pass:marshal-twice", "pass:clear-marshal-set-marshal", "pass:late-embedded-cleared", "pass:all-omittable-struct", "setupdate", "types:same-name-different-layout",
		"api:ConvertToParagraph+UnpackFromParagraph", "pass:ConvertToParagraph", "required:in-a-slice-of-paragraphs", "writer:breaks-down-part-way", "pass:two-paragraphs-to-a-writer-that-breaks-down", "reuse:empty-number-fields"}
}

// ---- probe types ----

type prScalars struct {
	S       string
	I       int
	U       uint
	B       bool
	Renamed string `control:"X-Renamed"`
	Skip    string `control:"-"`
	Multi   string `multiline:"true"`
	Req     string `required:"true"`
}

type prLists struct {
	Def     []string
	Comma   []string `delim:","`
	CommaSp []string `control:"Comma-Sp" delim:", "`
	Lines   []string `delim:"\n" strip:"\n\r\t "`
	Strip   []string `delim:"," strip:" "`
	Ints    []int
	Vers    []version.Version `delim:"," strip:" "`
	Archs   []dependency.Arch
	ReqList []string `control:"Req-List" required:"true" delim:","`
}

type prNested struct {
	V     version.Version
	D     dependency.Dependency    `control:"Depends"`
	A     dependency.Arch          `control:"Architecture"`
	Sums  []control.SHA256FileHash `control:"Checksums-Sha256" delim:"\n" strip:"\n\r\t "`
	Files []control.MD5FileHash    `delim:"\n" strip:"\n\r\t "`
	Name  string                   `required:"true"`
}

type prPtr struct {
	Name string
	P    *string
	V    *version.Version
	I    *int
}

type prPass struct {
	control.Paragraph
	Package string
	Size    int
	Tags    []string        `control:"Tag" delim:","`
	Ver     version.Version `control:"Version"`
	Note    string          `control:"X-Note"`
	Flag    bool
}

// prPassStr has only fields that can all be omitted.
type prPassStr struct {
	control.Paragraph
	Package string
	Note    string `control:"X-Note"`
}

// prPassLate embeds the Paragraph after its known fields (field layout matters
// to code that fills state while walking the struct).
type prPassLate struct {
	Package string
	Note    string `control:"X-Note"`
	control.Paragraph
	Size int
}

func word(r *core.Rand) string {
	w := r.Str("abcdefghijklmnopqrstuvwxyz0123456789+.-_/=~", r.Range(1, 8))
	if w == "." { // a lone dot is "empty line" on a continuation line
		w = "x."
	}
	return w
}

func words(r *core.Rand, lo, hi int) []string {
	n := r.Range(lo, hi)
	if n == 0 {
		return nil
	}
	out := make([]string, n)
	for i := range out {
		out[i] = word(r)
	}
	return out
}

func anyInt(r *core.Rand) int {
	switch r.Intn(6) {
	case 0:
		return 0
	case 1:
		return math.MaxInt64
	case 2:
		return math.MinInt64
	case 3:
		return -r.Intn(100000) - 1
	default:
		return int(r.U64() >> uint(r.Intn(64)))
	}
}

func multiLine(r *core.Rand) string {
	var lines []string
	lines = append(lines, gen.ValueLine(r))
	for k := r.Range(1, 4); k > 0; k-- {
		switch r.Intn(4) {
		case 0:
			lines = append(lines, "")
		case 1:
			lines = append(lines, "  "+gen.ValueLine(r))
		default:
			lines = append(lines, gen.ValueLine(r))
		}
	}
	if lines[len(lines)-1] == "" {
		lines = append(lines, gen.ValueLine(r))
	}
	return strings.Join(lines, "\n") + "\n"
}

func sha(r *core.Rand, n int) string { return r.Str("0123456789abcdef", n) }

// normalise: nil slices → empty, so DeepEqual means "same content".
func normVal(v reflect.Value) {
	switch v.Kind() {
	case reflect.Ptr:
		if !v.IsNil() {
			normVal(v.Elem())
		}
	case reflect.Struct:
		for i := 0; i < v.NumField(); i++ {
			if v.Field(i).CanSet() {
				normVal(v.Field(i))
			}
		}
	case reflect.Slice:
		if v.IsNil() {
			v.Set(reflect.MakeSlice(v.Type(), 0, 0))
		}
		for i := 0; i < v.Len(); i++ {
			normVal(v.Index(i))
		}
	case reflect.String:
		// multi-line strings: equal up to one trailing newline
		if s := v.String(); strings.Contains(s, "\n") {
			v.SetString(strings.TrimSuffix(s, "\n"))
		}
	}
}

func eqNorm(a, b interface{}) bool {
	ja, _ := json.Marshal(a)
	jb, _ := json.Marshal(b)
	return string(ja) == string(jb)
}

// roundtrip marshals src, unmarshals into dst (fresh), returns written text.
func c09Round(c *core.C, src, dst interface{}) (string, bool) {
	var buf bytes.Buffer
	if err := control.Marshal(&buf, src); err != nil {
		c.Failf("Marshal(%+v) failed: %v", src, err)
		return "", false
	}
	if err := control.Unmarshal(dst, strings.NewReader(buf.String())); err != nil {
		c.Failf("Unmarshal of Marshal's own output failed: %v\nvalue: %+v\nwritten: %q", err, src, buf.String())
		return buf.String(), false
	}
	// the same round trip through the paragraph API: ConvertToParagraph gives a well-formed paragraph (every
	// listed field has a value and nothing else has), and UnpackFromParagraph of it gives what Unmarshal gave
	if rt := reflect.TypeOf(dst); rt.Kind() == reflect.Ptr && rt.Elem().Kind() == reflect.Struct {
		para, err := control.ConvertToParagraph(src)
		if err != nil || para == nil {
			c.Failf("ConvertToParagraph(%+v) failed: %v", src, err)
			return buf.String(), false
		}
		seen := map[string]bool{}
		for _, k := range para.Order {
			if _, ok := para.Values[k]; !ok || seen[k] {
				c.Failf("ConvertToParagraph(%+v): field %q is listed twice or has no value (Order %q)", src, k, para.Order)
			}
			seen[k] = true
		}
		if len(para.Values) != len(seen) {
			c.Failf("ConvertToParagraph(%+v): %d values for the %d fields listed in Order %q", src, len(para.Values), len(seen), para.Order)
		}
		// (through its text: the statement is about the marshalled TEXT; what the paragraph holds in memory for
		// a multi-line field is the writer's business)
		var pbuf bytes.Buffer
		if err := para.WriteTo(&pbuf); err != nil {
			c.Failf("WriteTo of ConvertToParagraph's result failed: %v", err)
			return buf.String(), false
		}
		pr, err := control.NewParagraphReader(strings.NewReader(pbuf.String()), nil)
		var back *control.Paragraph
		if err == nil {
			back, err = pr.Next()
		}
		if err != nil || back == nil {
			c.Failf("the text of ConvertToParagraph's result does not read back: %v\ntext: %q", err, pbuf.String())
			return buf.String(), false
		}
		dst2 := reflect.New(rt.Elem())
		if err := control.UnpackFromParagraph(*back, dst2.Interface()); err != nil {
			c.Failf("UnpackFromParagraph of ConvertToParagraph's own result (written and read back) failed: %v\nvalue: %+v", err, src)
		} else {
			a, b := reflect.New(rt.Elem()), reflect.New(rt.Elem())
			a.Elem().Set(reflect.ValueOf(dst).Elem())
			b.Elem().Set(dst2.Elem())
			stripPara(a.Elem())
			stripPara(b.Elem())
			normVal(a.Elem())
			normVal(b.Elem())
			if !eqNorm(a.Interface(), b.Interface()) {
				c.Failf("ConvertToParagraph + UnpackFromParagraph gives %+v, Marshal + Unmarshal gives %+v\nvalue: %+v", dst2.Elem().Interface(), reflect.ValueOf(dst).Elem().Interface(), src)
			}
		}
		c.Cover("api:ConvertToParagraph+UnpackFromParagraph")
	}
	// a writer that breaks down part-way: nil from Marshal means the writer got the whole text
	for _, left := range []int{0, buf.Len() / 2, buf.Len() - 1} {
		if left < 0 {
			continue
		}
		w := &breakingWriter{left: left}
		if err := control.Marshal(w, src); err == nil && !bytes.Equal(w.got, buf.Bytes()) {
			c.Failf("Marshal returned nil although the writer failed after accepting %d bytes: it holds %q, the text is %q", len(w.got), w.got, buf.Bytes())
		}
	}
	c.Cover("writer:breaks-down-part-way")
	return buf.String(), true
}

// stripPara empties an embedded control.Paragraph (two routes to a value need not fill it alike).
func stripPara(v reflect.Value) {
	if f := v.FieldByName("Paragraph"); f.IsValid() && f.Type() == reflect.TypeOf(control.Paragraph{}) && f.CanSet() {
		f.Set(reflect.Zero(f.Type()))
	}
}

func hasField(text, name string) bool {
	return strings.HasPrefix(text, name+":") || strings.Contains(text, "\n"+name+":")
}

func (p c09) scalars(c *core.C, v prScalars) {
	var got prScalars
	text, ok := c09Round(c, &v, &got)
	if !ok {
		return
	}
	want := v
	want.Skip = ""
	nw, ng := want, got
	normVal(reflect.ValueOf(&nw).Elem())
	normVal(reflect.ValueOf(&ng).Elem())
	if !eqNorm(nw, ng) {
		c.Failf("round trip changed the value:\n in:  %+v\n out: %+v\n written: %q", want, got, text)
	}
	// the next paragraph decoded into the same variable: numbers present but empty there must not keep the old ones
	if v.I != 0 || v.U != 0 {
		next := "Req: again\nI:\nU:\n"
		var fresh prScalars
		errF := control.Unmarshal(&fresh, strings.NewReader(next))
		errR := control.Unmarshal(&got, strings.NewReader(next))
		if (errF == nil) != (errR == nil) || (errF == nil && (got.I != fresh.I || got.U != fresh.U || got.Req != fresh.Req)) {
			c.Failf("decoding %q into a variable that held I=%d U=%d gives I=%d U=%d (err %v); into a fresh variable I=%d U=%d (err %v)", next, v.I, v.U, got.I, got.U, errR, fresh.I, fresh.U, errF)
		}
		c.Cover("reuse:empty-number-fields")
	}
	c.Cover("kind:string")
	switch {
	case v.I < 0:
		c.Cover("kind:int-negative")
	case v.I == 0:
		c.Cover("kind:int-zero")
	}
	if v.U >= 1<<63 {
		c.Cover("kind:uint>=2^63")
	}
	c.Cover(fmt.Sprintf("kind:bool-%v", v.B))
	if v.Renamed != "" {
		c.Cover("tag:control-name")
		if !hasField(text, "X-Renamed") || hasField(text, "Renamed") {
			c.Failf("field tagged control:\"X-Renamed\" not written under that name: %q", text)
		}
	}
	if v.Skip != "" {
		c.Cover("tag:skip")
		if hasField(text, "Skip") || hasField(text, "-") {
			c.Failf("field tagged control:\"-\" was written: %q", text)
		}
	}
	if v.Multi != "" {
		c.Cover("tag:multiline")
	}
	for _, f := range []struct {
		name string
		zero bool
	}{{"S", v.S == ""}, {"X-Renamed", v.Renamed == ""}, {"Multi", v.Multi == ""}} {
		if f.zero && hasField(text, f.name) {
			c.Failf("optional field %s is empty but was written: %q", f.name, text)
		}
	}
	if !hasField(text, "Req") {
		c.Failf("required field Req missing from output %q", text)
	}
	if v.Req == "" {
		c.Cover("tag:required-empty-written")
	} else {
		c.Cover("tag:required-present")
	}
	if v.S != "" || v.I != 0 || v.U != 0 || v.B || v.Multi != "" {
		c.Nontrivial()
	}
}

func (p c09) lists(c *core.C, v prLists) {
	var got prLists
	text, ok := c09Round(c, &v, &got)
	if !ok {
		return
	}
	nw, ng := v, got
	normVal(reflect.ValueOf(&nw).Elem())
	normVal(reflect.ValueOf(&ng).Elem())
	if !eqNorm(nw, ng) {
		c.Failf("round trip changed the value:\n in:  %+v\n out: %+v\n written: %q", v, got, text)
	}
	tag := func(name string, n int, fieldName string) {
		if n > 0 {
			c.Cover(name)
		} else {
			c.Cover("list:empty-omitted")
			if hasField(text, fieldName) {
				c.Failf("optional empty list %s was written: %q", fieldName, text)
			}
		}
	}
	tag("list:default-delim", len(v.Def), "Def")
	tag("list:comma", len(v.Comma), "Comma")
	tag("list:comma-space", len(v.CommaSp), "Comma-Sp")
	tag("list:newline", len(v.Lines), "Lines")
	tag("list:ints", len(v.Ints), "Ints")
	tag("list:versions", len(v.Vers), "Vers")
	tag("list:archs", len(v.Archs), "Archs")
	if !hasField(text, "Req-List") {
		c.Failf("required list Req-List missing from output %q", text)
	}
	if len(v.ReqList) == 0 {
		c.Cover("list:required-empty")
	}
	c.Nontrivial()
}

func (p c09) nested(c *core.C, v prNested) {
	var got prNested
	text, ok := c09Round(c, &v, &got)
	if !ok {
		return
	}
	if got.V != v.V {
		c.Failf("version changed: %+v -> %+v (written %q)", v.V, got.V, text)
	}
	if normDep(&got.D) != normDep(&v.D) {
		c.Failf("dependency changed:\n in:  %s\n out: %s\n written: %q", normDep(&v.D), normDep(&got.D), text)
	}
	if got.A != v.A {
		c.Failf("architecture changed: %+v -> %+v (written %q)", v.A, got.A, text)
	}
	if !eqNorm(v.Sums, got.Sums) && !(len(v.Sums) == 0 && len(got.Sums) == 0) {
		c.Failf("checksum list changed:\n in:  %+v\n out: %+v\n written: %q", v.Sums, got.Sums, text)
	}
	if !eqNorm(v.Files, got.Files) && !(len(v.Files) == 0 && len(got.Files) == 0) {
		c.Failf("file list changed:\n in:  %+v\n out: %+v\n written: %q", v.Files, got.Files, text)
	}
	if got.Name != v.Name {
		c.Failf("Name changed %q -> %q", v.Name, got.Name)
	}
	if !v.V.Empty() {
		c.Cover("nested:version")
	} else if hasField(text, "V") {
		c.Failf("zero version was written: %q", text)
	}
	if len(v.D.Relations) > 0 {
		c.Cover("nested:dependency")
	} else if hasField(text, "Depends") {
		c.Failf("empty dependency was written: %q", text)
	}
	if v.A != (dependency.Arch{}) {
		c.Cover("nested:arch")
	}
	if len(v.Sums) > 0 || len(v.Files) > 0 {
		c.Cover("nested:checksums")
	}
	// the next paragraph of a stream decoded into the SAME variable: fields that are present but empty there (or
	// absent) must not keep what the previous paragraph put into the variable
	next := "Name: second\nDepends:\nArchitecture: all\nV:\n"
	var fresh prNested
	errF := control.Unmarshal(&fresh, strings.NewReader(next))
	errR := control.Unmarshal(&got, strings.NewReader(next))
	if (errF == nil) != (errR == nil) {
		c.Failf("decoding %q into a variable that held another paragraph: error %v; into a fresh variable: error %v", next, errR, errF)
	} else if errF == nil && (normDep(&got.D) != normDep(&fresh.D) || got.V != fresh.V || got.A != fresh.A || got.Name != fresh.Name) {
		c.Failf("decoding %q into a variable that held %q gives Depends %s, V %+v, Architecture %+v; into a fresh variable Depends %s, V %+v, Architecture %+v",
			next, text, normDep(&got.D), got.V, got.A, normDep(&fresh.D), fresh.V, fresh.A)
	}
	c.Cover("nested:variable-reused-for-the-next-paragraph")
	c.Nontrivial()
}

func (p c09) ptr(c *core.C, v prPtr) {
	var buf bytes.Buffer
	err := control.Marshal(&buf, &v) // must not panic; an error is acceptable
	if v.P == nil || v.V == nil || v.I == nil {
		c.Cover("ptr:nil")
	}
	if v.P != nil || v.V != nil || v.I != nil {
		c.Cover("ptr:non-nil")
		c.Nontrivial()
	}
	if err == nil {
		if !hasField(buf.String(), "Name") && v.Name != "" {
			c.Failf("Marshal with pointer fields lost Name: %q", buf.String())
		}
		if v.P != nil && *v.P != "" && !strings.Contains(buf.String(), *v.P) {
			c.Failf("non-nil *string %q not written: %q", *v.P, buf.String())
		}
	}
}

func (p c09) required(c *core.C, present bool, which int) {
	// documents with / without the required field
	docs := []struct {
		text string
		into func() interface{}
		name string
	}{
		{"S: x\nI: 3\n", func() interface{} { return &prScalars{} }, "Req"},
		{"Def: a b\n", func() interface{} { return &prLists{} }, "Req-List"},
		{"V: 1.0\n", func() interface{} { return &prNested{} }, "Name"},
	}
	d := docs[which%len(docs)]
	text := d.text
	if present {
		text += d.name + ": v\n"
	}
	err := control.Unmarshal(d.into(), strings.NewReader(text))
	if present && err != nil {
		c.Failf("document with the required field %s rejected: %v (%q)", d.name, err, text)
	}
	if !present {
		c.Cover("required-missing-rejected")
		if err == nil {
			c.Failf("document lacking the required field %s was accepted: %q", d.name, text)
		}
	}
	// the same inside a list of paragraphs: the second of three lacks the field
	good := d.text + d.name + ": v\n"
	doc3 := good + "\n" + text + "\n" + good
	into := reflect.New(reflect.SliceOf(reflect.TypeOf(d.into()).Elem()))
	err3 := control.Unmarshal(into.Interface(), strings.NewReader(doc3))
	if present && (err3 != nil || into.Elem().Len() != 3) {
		c.Failf("three paragraphs with the required field %s decoded into a slice: %d elements, error %v (%q)", d.name, into.Elem().Len(), err3, doc3)
	}
	if !present && err3 == nil {
		c.Failf("decoding into a slice accepted a document whose second paragraph lacks the required field %s: %q", d.name, doc3)
	}
	c.Cover("required:in-a-slice-of-paragraphs")
	c.Nontrivial()
}

type c09Pass struct {
	Doc model.Doc         `json:"doc"`
	Set map[string]string `json:"set"` // known field -> new text value ("" = clear)
}

// pass-through case.
func (p c09) pass(c *core.C, cs c09Pass) {
	text := cs.Doc.Render()
	var s prPass
	if err := control.Unmarshal(&s, strings.NewReader(text)); err != nil {
		c.Failf("Unmarshal of a well-formed document failed: %v (%q)", err, text)
		return
	}
	c.Cover("pass:documents")
	orig := docExpect(cs.Doc)[0]
	// current known values as text, keyed by paragraph key
	known := map[string]string{}
	apply := func(key, val string) {
		switch key {
		case "Package":
			s.Package = val
		case "Size":
			n := 0
			fmt.Sscanf(val, "%d", &n)
			s.Size = n
		case "Tag":
			if val == "" {
				s.Tags = nil
			} else {
				s.Tags = strings.Split(val, ",")
			}
		case "Version":
			if val == "" {
				s.Ver = version.Version{}
			} else {
				s.Ver, _ = version.Parse(val)
			}
		case "X-Note":
			s.Note = val
		}
	}
	for k, v := range cs.Set {
		apply(k, v)
	}
	// expected text of every known key from the struct's current values
	if s.Package != "" {
		known["Package"] = s.Package
	}
	known["Size"] = fmt.Sprint(s.Size)
	if len(s.Tags) > 0 {
		known["Tag"] = strings.Join(s.Tags, ",")
	}
	if !s.Ver.Empty() {
		known["Version"] = s.Ver.String()
	}
	if s.Note != "" {
		known["X-Note"] = s.Note
	}
	known["Flag"] = map[bool]string{true: "yes", false: "no"}[s.Flag]
	isKnown := map[string]bool{"Package": true, "Size": true, "Tag": true, "Version": true, "X-Note": true, "Flag": true}

	// Marshal must not modify the value it is given: snapshot the embedded Paragraph
	snapOrder := append([]string{}, s.Paragraph.Order...)
	snapValues := map[string]string{}
	for k, v := range s.Paragraph.Values {
		snapValues[k] = v
	}
	var buf bytes.Buffer
	if err := control.Marshal(&buf, &s); err != nil {
		c.Failf("Marshal failed: %v", err)
		return
	}
	if !eqLines(snapOrder, s.Paragraph.Order) || !reflect.DeepEqual(snapValues, s.Paragraph.Values) {
		c.Failf("Marshal modified the embedded Paragraph of the value it was given: Order %q -> %q", snapOrder, s.Paragraph.Order)
	}
	// a second Marshal of the same, unchanged value must give the same text
	var buf2 bytes.Buffer
	if err := control.Marshal(&buf2, &s); err != nil || buf2.String() != buf.String() {
		c.Failf("marshalling the same value twice gives different text (err %v):\n first:  %q\n second: %q", err, buf.String(), buf2.String())
	}
	c.Cover("pass:marshal-twice")
	// the paragraph API on the same value: a well-formed paragraph (every listed field has a value, nothing else
	// has one), whose text is what Marshal writes
	if para, err := control.ConvertToParagraph(&s); err != nil || para == nil {
		c.Failf("ConvertToParagraph failed on a value Marshal accepts: %v", err)
	} else {
		listed := map[string]bool{}
		for _, k := range para.Order {
			if _, has := para.Values[k]; !has || listed[k] {
				c.Failf("ConvertToParagraph: field %q is listed twice or has no value (Order %q)", k, para.Order)
			}
			listed[k] = true
		}
		for k := range para.Values {
			if !listed[k] {
				c.Failf("ConvertToParagraph: the paragraph has a value for %q, which it does not list (Order %q)", k, para.Order)
			}
		}
		var pb bytes.Buffer
		if err := para.WriteTo(&pb); err != nil {
			c.Failf("WriteTo of ConvertToParagraph's result failed: %v", err)
		} else if pref, pok := model.RefRead(pb.String()); !pok || len(pref) != 1 {
			c.Failf("the text of ConvertToParagraph's result is not one well-formed paragraph: %q", pb.String())
		} else if mref, mok := model.RefRead(buf.String()); mok && len(mref) == 1 && !reflect.DeepEqual(pref[0], mref[0]) {
			c.Failf("ConvertToParagraph's result reads as %+v, Marshal's text as %+v", pref[0], mref[0])
		}
		c.Cover("pass:ConvertToParagraph")
	}
	// two paragraphs through one Marshal call to a writer that breaks down: nil means everything arrived
	{
		var both bytes.Buffer
		pair := []prPass{s, s}
		if control.Marshal(&both, pair) == nil {
			for _, left := range []int{buf.Len() - 1, buf.Len(), buf.Len() + 1, both.Len() - 1} {
				w := &breakingWriter{left: left}
				if err := control.Marshal(w, pair); err == nil && !bytes.Equal(w.got, both.Bytes()) {
					c.Failf("Marshal of two paragraphs returned nil although the writer failed after accepting %d of %d bytes", len(w.got), both.Len())
				}
			}
			c.Cover("pass:two-paragraphs-to-a-writer-that-breaks-down")
		}
	}
	ref, ok := model.RefRead(buf.String())
	if !ok || len(ref) != 1 {
		c.Failf("Marshal output is not one well-formed paragraph: %q", buf.String())
		return
	}
	out := ref[0]
	// expected order: original order without known keys that are now omitted,
	// then known keys that were not in the original, in struct order.
	var wantOrder []string
	inOrig := map[string]bool{}
	for _, k := range orig.Order {
		inOrig[k] = true
		if isKnown[k] {
			if _, present := known[k]; !present {
				c.Cover("pass:cleared")
				continue
			}
		}
		wantOrder = append(wantOrder, k)
	}
	for _, k := range []string{"Package", "Size", "Tag", "Version", "X-Note", "Flag"} {
		if _, present := known[k]; present && !inOrig[k] {
			wantOrder = append(wantOrder, k)
			if _, set := cs.Set[k]; set {
				c.Cover("pass:newly-set")
			}
		}
	}
	// int 0 and bool false render as non-empty text ("0", "no") today; a writer that omits them
	// would follow the statement just as well ("optional zero fields are omitted"): tolerate both
	zeroOK := map[string]bool{"Size": s.Size == 0, "Flag": !s.Flag}
	strip := func(in []string, present map[string][]string) []string {
		var o []string
		for _, k := range in {
			if zeroOK[k] {
				if _, written := present[k]; !written {
					continue
				}
			}
			o = append(o, k)
		}
		return o
	}
	wantOrder = strip(wantOrder, out.Lines)
	// what the statement fixes: the SET of fields written, and the relative order of the fields the struct does not
	// know ("re-emitted unchanged in their original order"); where the known fields go among them is the writer's choice
	sameSet := len(out.Order) == len(wantOrder)
	if sameSet {
		w := map[string]int{}
		for _, k := range wantOrder {
			w[k]++
		}
		for _, k := range out.Order {
			w[k]--
		}
		for _, n := range w {
			if n != 0 {
				sameSet = false
			}
		}
	}
	unknownOf := func(order []string) []string {
		var o []string
		for _, k := range order {
			if !isKnown[k] {
				o = append(o, k)
			}
		}
		return o
	}
	if !sameSet || !eqLines(unknownOf(out.Order), unknownOf(wantOrder)) {
		c.Failf("pass-through: fields written %q; expected the fields %q with the unknown ones in their original order\noriginal: %q\nchanges: %v\nwritten: %q", out.Order, wantOrder, text, cs.Set, buf.String())
		return
	}
	if eqLines(out.Order, wantOrder) {
		c.Cover("pass:known-fields-keep-their-slot") // evidence only
	}
	for _, k := range wantOrder {
		if isKnown[k] {
			if got := strings.Join(out.Lines[k], "\n"); got != known[k] {
				c.Failf("known field %s written as %q, struct holds %q\noriginal: %q\nwritten: %q", k, got, known[k], text, buf.String())
			}
			if v, set := cs.Set[k]; set && v != "" && inOrig[k] {
				c.Cover("pass:overwritten")
			}
		} else {
			c.Cover("pass:unknown-kept")
			if !eqLines(out.Lines[k], orig.Lines[k]) {
				c.Failf("unknown field %s changed: %q -> %q", k, orig.Lines[k], out.Lines[k])
			}
		}
	}
	c.Nontrivial()
	p.passSequence(c, cs)
}

// passSequence: unmarshal, clear every known field, Marshal, set one field
// again, Marshal again; and the same document through a struct that embeds the
// Paragraph after its known fields.
func (p c09) passSequence(c *core.C, cs c09Pass) {
	text := cs.Doc.Render()
	orig := docExpect(cs.Doc)[0]
	unknownOrder := func(extra ...string) []string {
		var out []string
		for _, k := range orig.Order {
			switch k {
			case "Package", "Size", "Tag", "Version", "X-Note", "Flag":
			default:
				out = append(out, k)
			}
		}
		return append(out, extra...)
	}
	var s prPass
	if control.Unmarshal(&s, strings.NewReader(text)) != nil {
		return
	}
	s.Package, s.Tags, s.Note = "", nil, ""
	s.Ver = version.Version{}
	var b1 bytes.Buffer
	if err := control.Marshal(&b1, &s); err != nil {
		c.Failf("Marshal after clearing the known fields failed: %v", err)
		return
	}
	s.Note = "set again"
	var b2 bytes.Buffer
	if err := control.Marshal(&b2, &s); err != nil {
		c.Failf("second Marshal failed: %v", err)
		return
	}
	ref, ok := model.RefRead(b2.String())
	if !ok || len(ref) != 1 {
		c.Failf("clear-all, Marshal, set X-Note, Marshal: the second output is not one well-formed paragraph: %q (first output %q)", b2.String(), b1.String())
		return
	}
	// expected: X-Note is back; Size (0 or not) and Flag render as text today, but may legitimately be omitted when zero
	want := map[string]bool{"X-Note": true}
	for _, k := range []string{"Size", "Flag"} {
		if _, written := ref[0].Lines[k]; written || (k == "Size" && s.Size != 0) || (k == "Flag" && s.Flag) {
			want[k] = true
		}
	}
	for _, k := range unknownOrder() {
		want[k] = true
	}
	got := map[string]bool{}
	for _, k := range ref[0].Order {
		if got[k] {
			c.Failf("second Marshal lists %q twice: %q", k, ref[0].Order)
		}
		got[k] = true
	}
	if !reflect.DeepEqual(got, want) {
		c.Failf("clear-all, Marshal, set X-Note, Marshal: fields %q, want the set %v\noriginal: %q\nsecond output: %q", ref[0].Order, want, text, b2.String())
	}
	for _, k := range unknownOrder() {
		if !eqLines(ref[0].Lines[k], orig.Lines[k]) {
			c.Failf("unknown field %s changed across two Marshal calls", k)
		}
	}
	c.Cover("pass:clear-marshal-set-marshal")

	// a struct whose known fields can all be omitted: clear them, Marshal, set one, Marshal
	var q prPassStr
	if control.Unmarshal(&q, strings.NewReader(text)) == nil {
		q.Package, q.Note = "", ""
		snapOrder := append([]string{}, q.Paragraph.Order...)
		var q1, q2 bytes.Buffer
		e1 := control.Marshal(&q1, &q)
		if !eqLines(snapOrder, q.Paragraph.Order) {
			c.Failf("Marshal of a struct with all known fields cleared modified the caller's embedded Paragraph: Order %q -> %q", snapOrder, q.Paragraph.Order)
		}
		q.Note = "back"
		e2 := control.Marshal(&q2, &q)
		if e1 == nil && e2 == nil {
			if r2, ok := model.RefRead(q2.String()); !ok || len(r2) != 1 {
				c.Failf("all-cleared, Marshal, set X-Note, Marshal: second output is not one well-formed paragraph: %q", q2.String())
			} else {
				wantN := 0
				for _, k := range orig.Order {
					if k != "Package" && k != "X-Note" {
						wantN++
					}
				}
				if len(r2[0].Order) != wantN+1 {
					c.Failf("all-cleared, Marshal, set X-Note, Marshal: second output lists %q; the original had %q\nfirst output: %q", r2[0].Order, orig.Order, q1.String())
				}
			}
		}
		c.Cover("pass:all-omittable-struct")
	}

	// Paragraph embedded after known fields
	var l prPassLate
	if err := control.Unmarshal(&l, strings.NewReader(text)); err != nil {
		c.Failf("Unmarshal into a struct embedding Paragraph after its known fields failed: %v", err)
		return
	}
	hadPkg := l.Package != ""
	l.Package = ""
	var b3 bytes.Buffer
	if err := control.Marshal(&b3, &l); err != nil {
		c.Failf("Marshal (late-embedded Paragraph) failed: %v", err)
		return
	}
	if r3, ok := model.RefRead(b3.String()); ok && len(r3) == 1 {
		for _, k := range r3[0].Order {
			if k == "Package" {
				c.Failf("a cleared known field declared BEFORE the embedded Paragraph was re-emitted with its stale value: %q", b3.String())
			}
		}
	}
	if hadPkg {
		c.Cover("pass:late-embedded-cleared")
	}
}

func (p c09) genPass(r *core.Rand) c09Pass {
	var para model.Para
	names := []string{"Package", "Size", "Tag", "Version", "X-Note", "X-Foo", "X-Bar", "XB-Baz", "Origin", "Bugs"}
	perm := r.Perm(len(names))
	for _, i := range perm[:r.Range(2, len(names))] {
		n := names[i]
		f := model.Field{Name: n, Lead: " "}
		switch n {
		case "Package":
			f.First = gen.PkgName(r)
		case "Size":
			f.First = fmt.Sprint(r.Intn(100000))
		case "Tag":
			f.First = strings.Join(words(r, 1, 4), ",")
		case "Version":
			f.First = gen.Version(r).Text
		case "X-Note":
			f.First = gen.ValueLine(r)
		default:
			f = gen.Deb822Field(r, n)
			f.Comments = nil
			for i := range f.Cont {
				f.Cont[i].Comments = nil
			}
			if f.First == "" && len(f.Cont) > 0 && (f.Cont[0].Content == "." || strings.HasPrefix(f.Cont[0].Content, " ") || strings.HasPrefix(f.Cont[0].Content, "\t")) {
				f.First = "x"
			}
		}
		para.Fields = append(para.Fields, f)
	}
	cs := c09Pass{Doc: model.Doc{Paras: []model.Para{para}}, Set: map[string]string{}}
	for _, k := range []string{"Package", "Tag", "Version", "X-Note", "Size"} {
		switch r.Intn(4) {
		case 0: // clear
			if k != "Size" {
				cs.Set[k] = ""
			}
		case 1: // set / overwrite
			switch k {
			case "Package":
				cs.Set[k] = gen.PkgName(r)
			case "Tag":
				cs.Set[k] = strings.Join(words(r, 1, 3), ",")
			case "Version":
				cs.Set[k] = gen.Version(r).Text
			case "X-Note":
				cs.Set[k] = gen.ValueLine(r)
			case "Size":
				cs.Set[k] = fmt.Sprint(r.Intn(1000) + 1)
			}
		}
	}
	return cs
}

func (p c09) RunBatch(t *core.T, b core.Batch) {
	if concDispatch(p, t, b) {
		return
	}
	r := t.Rand(b.Name, fmt.Sprint(b.Arg))
	for i := 0; i < b.N; i++ {
		switch b.Name {
		case "scalars":
			v := prScalars{I: anyInt(r), B: r.Bool()}
			if r.Chance(3, 4) {
				v.S = gen.ValueLine(r)
			}
			switch r.Intn(4) {
			case 0:
				v.U = uint(r.U64() | 1<<63)
			case 1:
				v.U = uint(r.U64() >> uint(r.Intn(64)))
			case 2:
				v.U = math.MaxUint64
			}
			if r.Bool() {
				v.Renamed = gen.ValueLine(r)
			}
			if r.Bool() {
				v.Skip = word(r)
			}
			if r.Bool() {
				v.Multi = multiLine(r)
			}
			if r.Chance(3, 4) {
				v.Req = gen.ValueLine(r)
			}
			in, _ := json.Marshal(v)
			t.Case("scalars", in, func(c *core.C) { p.scalars(c, v) })
		case "lists":
			v := prLists{Def: words(r, 0, 4), Comma: words(r, 0, 4), CommaSp: words(r, 0, 4), Lines: words(r, 0, 4), Strip: words(r, 0, 3), ReqList: words(r, 0, 3)}
			if len(v.Def) >= 3 && r.Chance(1, 3) {
				// interior elements of the blank-delimited list that are empty or hold white space other than the delimiter
				v.Def[1+r.Intn(len(v.Def)-2)] = r.Pick([]string{"", "a\tb", "x\u00a0y", "p\u3000q", "\tz", "w\t"})
				t.Cover("list:default-delim-odd-interior-element")
			}
			if len(v.Comma) >= 3 && r.Chance(1, 4) {
				v.Comma[1] = r.Pick([]string{"", "a b", " lead", "trail ", "a\tb"})
			}
			for k := r.Range(0, 3); k > 0; k-- {
				v.Ints = append(v.Ints, anyInt(r))
			}
			for k := r.Range(0, 3); k > 0; k-- {
				pv, _ := version.Parse(gen.Version(r).Text)
				v.Vers = append(v.Vers, pv)
			}
			for k := r.Range(0, 3); k > 0; k-- {
				a, _ := dependency.ParseArch(r.Pick(gen.ArchNames))
				v.Archs = append(v.Archs, *a)
			}
			in, _ := json.Marshal(v)
			t.Case("lists", in, func(c *core.C) { p.lists(c, v) })
		case "nested":
			v := prNested{Name: word(r)}
			if r.Chance(3, 4) {
				v.V, _ = version.Parse(gen.Version(r).Text)
			}
			if r.Chance(3, 4) {
				d, err := dependency.Parse(gen.Dep(r, 3, 2, true).Render(model.Canonical, false))
				if err == nil {
					v.D = *d
				}
			}
			{
				// always a real architecture: the zero Arch is not one (it renders as "--", which a parser may refuse)
				a, _ := dependency.ParseArch(r.Pick(gen.ArchNames))
				v.A = *a
			}
			for k := r.Range(0, 3); k > 0; k-- {
				v.Sums = append(v.Sums, control.SHA256FileHash{FileHash: control.FileHash{Algorithm: "sha256", Hash: sha(r, 64), Size: int64(r.Intn(1 << 30)), Filename: word(r) + ".tar.gz", ByHash: "SHA256"}})
			}
			for k := r.Range(0, 3); k > 0; k-- {
				v.Files = append(v.Files, control.MD5FileHash{FileHash: control.FileHash{Algorithm: "md5", Hash: sha(r, 32), Size: int64(r.Intn(1 << 30)), Filename: word(r) + ".dsc"}})
			}
			in, _ := json.Marshal(v)
			t.Case("nested", in, func(c *core.C) { p.nested(c, v) })
		case "ptr":
			v := prPtr{Name: word(r)}
			if r.Bool() {
				s := word(r)
				v.P = &s
			}
			if r.Bool() {
				pv, _ := version.Parse(gen.Version(r).Text)
				v.V = &pv
			}
			if r.Bool() {
				n := anyInt(r)
				v.I = &n
			}
			in, _ := json.Marshal(v)
			t.Case("ptr", in, func(c *core.C) { p.ptr(c, v) })
		case "required":
			present, which := r.Bool(), r.Intn(3)
			t.Case("required", []byte(fmt.Sprintf("%v/%d", present, which)), func(c *core.C) { p.required(c, present, which) })
			first, a, b2 := r.Intn(2), word(r), word(r)
			t.Case("samename", []byte(fmt.Sprintf("%d/%s/%s", first, a, b2)), func(c *core.C) { p.sameName(c, first, a, b2) })
		case "setupdate":
			// Paragraph.Set / Paragraph.Update against a plain ordered-map model
			n1, n2 := r.Range(0, 5), r.Range(0, 5)
			keys := []string{"A", "B", "C", "D", "E", "F", "X-1", "X-2"}
			var ops [][2]string
			for k := 0; k < n1+n2; k++ {
				ops = append(ops, [2]string{r.Pick(keys), word(r)})
			}
			in, _ := json.Marshal(map[string]interface{}{"ops": ops, "n1": n1})
			t.Case("setupdate", in, func(c *core.C) { p.setUpdate(c, ops, n1) })
		case "pass":
			cs := p.genPass(r)
			in, _ := json.Marshal(cs)
			t.Case("pass", in, func(c *core.C) { p.pass(c, cs) })
		}
	}
}

// sameName: two distinct struct types that print under the same name (reflect.Type.String() is not
// unique: both are "props.stanza"), with different tags, marshalled in one process in either order.
func (p c09) sameName(c *core.C, first int, a, b string) {
	binary := func() {
		type stanza struct {
			Name    string `control:"Package"`
			Summary string `control:"Description" required:"true"`
			Private string `control:"-"`
		}
		v := stanza{Name: a, Private: b}
		var buf bytes.Buffer
		if err := control.Marshal(&buf, v); err != nil {
			c.Failf("Marshal(%+v) failed: %v", v, err)
			return
		}
		text := buf.String()
		if !hasField(text, "Package") || !hasField(text, "Description") || hasField(text, "Private") || hasField(text, "Source") || hasField(text, "X-Private") || (a != b && strings.Contains(text, ": "+b+"\n")) {
			c.Failf("Marshal of a struct with fields Package, Description(required), '-' wrote %q", text)
		}
		var back stanza
		if err := control.Unmarshal(&back, strings.NewReader(text)); err != nil || back.Name != a || back.Summary != "" || back.Private != "" {
			c.Failf("round trip of %+v through %q gives %+v (err %v)", v, text, back, err)
		}
	}
	source := func() {
		type stanza struct {
			Name    string `control:"Source"`
			Summary string `control:"-"`
			Private string `control:"X-Private"`
		}
		v := stanza{Name: a, Summary: "not for output", Private: b}
		var buf bytes.Buffer
		if err := control.Marshal(&buf, v); err != nil {
			c.Failf("Marshal(%+v) failed: %v", v, err)
			return
		}
		text := buf.String()
		if !hasField(text, "Source") || !hasField(text, "X-Private") || hasField(text, "Summary") || hasField(text, "Package") || hasField(text, "Description") || strings.Contains(text, "not for output") {
			c.Failf("Marshal of a struct with fields Source, '-', X-Private wrote %q", text)
		}
		var back stanza
		if err := control.Unmarshal(&back, strings.NewReader(text)); err != nil || back.Name != a || back.Summary != "" || back.Private != b {
			c.Failf("round trip of %+v through %q gives %+v (err %v)", v, text, back, err)
		}
	}
	if first == 0 {
		binary()
		source()
	} else {
		source()
		binary()
	}
	c.Cover("types:same-name-different-layout")
	c.Nontrivial()
}

type omap struct {
	order []string
	vals  map[string]string
}

func (m *omap) set(k, v string) {
	if _, ok := m.vals[k]; !ok {
		m.order = append(m.order, k)
	}
	m.vals[k] = v
}

// setUpdate: the first n1 operations build paragraph P with Set, the rest build Q; then P.Update(Q).
func (p c09) setUpdate(c *core.C, ops [][2]string, n1 int) {
	P := control.Paragraph{Values: map[string]string{}}
	Q := control.Paragraph{Values: map[string]string{}}
	mp, mq := &omap{vals: map[string]string{}}, &omap{vals: map[string]string{}}
	for i, op := range ops {
		if i < n1 {
			P.Set(op[0], op[1])
			mp.set(op[0], op[1])
		} else {
			Q.Set(op[0], op[1])
			mq.set(op[0], op[1])
		}
	}
	if !eqLines(P.Order, mp.order) || !reflect.DeepEqual(P.Values, mp.vals) {
		c.Failf("Paragraph.Set sequence %v gives Order %q Values %v; an ordered map gives %q %v", ops[:n1], P.Order, P.Values, mp.order, mp.vals)
	}
	pOrder := append([]string{}, P.Order...)
	U := P.Update(Q)
	want := &omap{vals: map[string]string{}}
	for _, k := range mp.order {
		want.set(k, mp.vals[k])
	}
	for _, k := range mq.order {
		want.set(k, mq.vals[k])
	}
	if !eqLines(U.Order, want.order) || !reflect.DeepEqual(U.Values, want.vals) {
		c.Failf("P.Update(Q) with P=%q%v Q=%q%v gives Order %q Values %v; want %q %v", mp.order, mp.vals, mq.order, mq.vals, U.Order, U.Values, want.order, want.vals)
	}
	if !eqLines(P.Order, pOrder) || !reflect.DeepEqual(P.Values, mp.vals) || !reflect.DeepEqual(Q.Values, mq.vals) {
		c.Failf("Paragraph.Update modified one of its operands")
	}
	U.Set("ZZ", "1")
	if _, leaked := P.Values["ZZ"]; leaked {
		c.Failf("the result of Update shares its Values map with the receiver")
	}
	c.Cover("setupdate")
	c.Nontrivial()
}

func (p c09) RunCase(t *core.T, kind string, input []byte) {
	switch kind {
	case "setupdate":
		var cs struct {
			Ops [][2]string `json:"ops"`
			N1  int         `json:"n1"`
		}
		if json.Unmarshal(input, &cs) == nil && cs.N1 <= len(cs.Ops) {
			t.Case(kind, input, func(c *core.C) { p.setUpdate(c, cs.Ops, cs.N1) })
		}
		return
	}
	switch kind {
	case "scalars":
		var v prScalars
		if json.Unmarshal(input, &v) == nil {
			t.Case(kind, input, func(c *core.C) { p.scalars(c, v) })
		}
	case "lists":
		var v prLists
		if json.Unmarshal(input, &v) == nil {
			t.Case(kind, input, func(c *core.C) { p.lists(c, v) })
		}
	case "nested":
		var v prNested
		if json.Unmarshal(input, &v) == nil {
			t.Case(kind, input, func(c *core.C) { p.nested(c, v) })
		}
	case "ptr":
		var v prPtr
		if json.Unmarshal(input, &v) == nil {
			t.Case(kind, input, func(c *core.C) { p.ptr(c, v) })
		}
	case "required":
		var present bool
		var which int
		parts := strings.Split(string(input), "/")
		if len(parts) == 2 {
			present = parts[0] == "true"
			fmt.Sscanf(parts[1], "%d", &which)
			t.Case(kind, input, func(c *core.C) { p.required(c, present, which) })
		}
	case "samename":
		parts := strings.SplitN(string(input), "/", 3)
		if len(parts) == 3 {
			first := 0
			fmt.Sscanf(parts[0], "%d", &first)
			t.Case(kind, input, func(c *core.C) { p.sameName(c, first, parts[1], parts[2]) })
		}
	case "pass":
		var cs c09Pass
		if json.Unmarshal(input, &cs) == nil {
			t.Case(kind, input, func(c *core.C) { p.pass(c, cs) })
		}
	}
}
