package props

import (
	"encoding/json"
	"fmt"
	"strconv"
	"strings"

	"pault.ag/go/debian/version"

	"verif/internal/core"
	"verif/internal/gen"
	"verif/internal/model"
)

// C03 — versions parse to their parts and render back without loss.
type c03 struct{}

func init() { core.Register(c03{}) }

func (c03) ID() string    { return "C03" }
func (c03) Level() string { return "exploration" }
func (c03) Rule() string {
	return "(A) versions built from the Policy grammar (epoch?/upstream/revision?, ':' in upstream only with epoch, '-' only with revision) wrapped in whitespace must parse to exactly their parts; (B) one invalidating edit per listed class (non-numeric/empty/negative/oversized epoch, embedded whitespace at every inner position, nothing after colon, non-digit first character, out-of-alphabet byte in upstream or revision, colon in revision) must be rejected; (C) every string the parser accepts - grammar outputs, their single-edit mutants, random strings over alphabet+whitespace, all strings of length<=6 over {0,1,:,-} and <=4 over {1,a,:,-,.,~,+} - must survive String/MarshalControl/MarshalText/json render+parse into a fresh value. Non-trivial = accepted string with epoch, revision, ':' in upstream or '-' in upstream, or a rejected near-miss; distinct by hash."
}
func (c03) Assumptions() []string {
	return []string{"grammar from Debian Policy 5.6.12", "encoding/json uses MarshalText/UnmarshalText of *Version"}
}

func (c03) Batches(tier string, seed uint64) []core.Batch {
	var b []core.Batch
	b = append(b, spread("grammar", 8, tierN(tier, 8000, 40000))...)
	b = append(b, spread("invalid", 4, tierN(tier, 1500, 6000))...)
	b = append(b, spread("exh", 8, 0)...)
	b = append(b, spread("rtrand", 8, tierN(tier, 12000, 60000))...)
	b = append(b, core.Batch{Name: "corpus"})                                        // versions of this machine's dpkg database
	b = append(b, core.Batch{Name: "volume", N: tierN(tier, 3_000_000, 30_000_000)}) // one case, one process: see volume.go
	return append(b, conc(tierN(tier, 300, 2000), "grammar", "rtrand")...)
}

func (c03) Mandatory(tier string) []string {
	return []string{"shape:epoch", "shape:revision", "shape:hyphen-in-upstream", "shape:trailing-hyphen", "rt:UnmarshalText-does-not-retain-buffer", "shape:colon-in-upstream", "shape:whitespace-wrapped",
		"invalid:epoch-non-numeric", "invalid:epoch-empty", "invalid:epoch-negative", "invalid:epoch-oversized", "invalid:embedded-space",
		"invalid:nothing-after-colon", "invalid:first-char-non-digit", "invalid:bad-char-upstream", "invalid:bad-char-revision", "invalid:colon-in-revision",
		"rt:String", "rt:MarshalControl", "rt:MarshalText", "rt:MarshalText-result-is-the-callers", "rt:json", "rt-accepted-from-random", "rt-accepted-from-exhaustive", "volume:versions-parsed-in-one-process"}
}

var wsWrap = []string{"", " ", "\t", "\n", " \t\n", "  ", "\r\n", "\v", "\f", " \f\v "} // the six white-space characters of C (what dpkg skips)

func (p c03) RunBatch(t *core.T, b core.Batch) {
	if concDispatch(p, t, b) {
		return
	}
	r := t.Rand(b.Name, fmt.Sprint(b.Arg))
	switch b.Name {
	case "volume":
		in := volInput(r.U64(), b.N)
		vc, _ := volDecode(in)
		t.Case("volume", in, func(c *core.C) { volumeParse(c, t, vc, false) })
	case "corpus":
		vals := corpusFieldValues("Version")
		if len(vals) == 0 {
			t.Cover("corpus:unavailable")
			return
		}
		for _, s := range vals {
			s := s
			t.Case("roundtrip", []byte(s), func(c *core.C) {
				if _, err := version.Parse(s); err != nil {
					c.Failf("Parse rejects the version of an installed package: %q: %v", s, err)
					return
				}
				p.roundtrip(c, s, "corpus")
			})
		}
		t.CoverN("corpus:dpkg-database-versions", int64(len(vals)))
	case "grammar":
		for i := 0; i < b.N; i++ {
			v := gen.Version(r)
			text := v.Text
			if r.Chance(1, 3) {
				text = r.Pick(wsWrap) + text + r.Pick(wsWrap)
			}
			in := []byte(text + "\x1e" + encVer(v.V))
			t.Case("grammar", in, func(c *core.C) { p.grammar(c, text, v.V) })
			// near variant, judged by the round-trip monitor only
			n := gen.Near(r, v)
			t.Case("roundtrip", []byte(n.Text), func(c *core.C) { p.roundtrip(c, n.Text, "grammar") })
		}
	case "invalid":
		for i := 0; i < b.N; i++ {
			v := gen.Version(r)
			for _, e := range p.invalidate(r, v) {
				e := e
				t.Case("invalid", []byte(e[0]+"\x1e"+e[1]), func(c *core.C) { p.invalid(c, e[0], e[1]) })
			}
		}
	case "exh":
		if b.Arg == 0 {
			for _, s := range []string{"-0:1.0", "-00:2", "+0:1", "-0:1.0-1", "+1:2-3", " -0:9 ", "0:-", "-0:", "-:1"} {
				s := s
				t.Case("roundtrip", []byte(s), func(c *core.C) { p.roundtrip(c, s, "exhaustive") })
			}
		}
		A := gen.AllStrings("01:-", 6)
		B := gen.AllStrings("1a:-.~+", tierN(t.Tier, 4, 5))
		all := append(A, B...)
		for i := b.Arg; i < len(all); i += 8 {
			s := all[i]
			t.Case("roundtrip", []byte(s), func(c *core.C) { p.roundtrip(c, s, "exhaustive") })
		}
	case "rtrand":
		alpha := "0123456789" + "0123" + "aZ.+~:-:-" + " \t\n"
		for i := 0; i < b.N; i++ {
			var s string
			switch r.Intn(3) {
			case 0:
				s = r.Str(alpha, r.Range(1, 10))
			case 1:
				s = r.Str("0123456789", r.Range(1, 2)) + r.Str(alpha[:len(alpha)-3], r.Range(0, 12))
			default: // mutate a grammar version by one byte edit
				bs := []byte(gen.Version(r).Text)
				switch r.Intn(3) {
				case 0:
					bs[r.Intn(len(bs))] = r.PickByte(alpha)
				case 1:
					k := r.Intn(len(bs) + 1)
					bs = append(bs[:k], append([]byte{r.PickByte(alpha)}, bs[k:]...)...)
				default:
					k := r.Intn(len(bs))
					bs = append(bs[:k], bs[k+1:]...)
				}
				s = string(bs)
			}
			t.Case("roundtrip", []byte(s), func(c *core.C) { p.roundtrip(c, s, "random") })
		}
	}
}

func (p c03) grammar(c *core.C, text string, want model.Ver) {
	got, err := version.Parse(text)
	if err != nil {
		c.Failf("Parse(%q) rejected a well-formed version: %v", text, err)
		return
	}
	if modVer(got) != want {
		c.Failf("Parse(%q) = {epoch %d, upstream %q, revision %q}; the grammar says {epoch %d, upstream %q, revision %q}",
			text, got.Epoch, got.Version, got.Revision, want.Epoch, want.Upstream, want.Revision)
	}
	var u version.Version
	if err := u.UnmarshalControl(text); err != nil || modVer(u) != want {
		c.Failf("UnmarshalControl(%q) into a fresh value = %+v, %v; want %+v", text, u, err, want)
	}
	// ... and into a variable that holds an earlier version with every part set
	re := version.Version{Epoch: 7, Version: "9.9-x", Revision: "8"}
	if err := re.UnmarshalControl(text); err != nil || modVer(re) != want {
		c.Failf("UnmarshalControl(%q) into a variable that held 7:9.9-x-8 = %+v, %v; want %+v", text, re, err, want)
	}
	re2 := version.Version{Epoch: 7, Version: "9.9-x", Revision: "8"}
	if err := re2.UnmarshalText([]byte(text)); err != nil || modVer(re2) != want {
		c.Failf("UnmarshalText(%q) into a variable that held 7:9.9-x-8 = %+v, %v; want %+v", text, re2, err, want)
	}
	trivial := true
	if strings.Contains(text, ":") {
		c.Cover("shape:epoch")
		trivial = false
	}
	if want.Revision != "" {
		c.Cover("shape:revision")
		trivial = false
	}
	if strings.Contains(want.Upstream, "-") {
		c.Cover("shape:hyphen-in-upstream")
	}
	if strings.Contains(want.Upstream, ":") {
		c.Cover("shape:colon-in-upstream")
	}
	if strings.TrimSpace(text) != text {
		c.Cover("shape:whitespace-wrapped")
	}
	if !trivial {
		c.Nontrivial()
	}
	p.roundtrip(c, text, "grammar")
}

// invalidate returns (class, string) near-misses for each listed class.
func (c03) invalidate(r *core.Rand, v gen.VText) [][2]string {
	body := v.V.Upstream
	if v.V.Revision != "" {
		body += "-" + v.V.Revision
	}
	// body may contain ':' only if v has an epoch; build an epoch-free body for epoch tests
	plain := strings.ReplaceAll(body, ":", ".")
	out := [][2]string{
		{"epoch-non-numeric", r.Pick([]string{"a", "1a", "a1", "1.0", "1+", "1~", "0x1"}) + ":" + plain},
		{"epoch-empty", ":" + plain},
		{"epoch-negative", "-" + r.Str("123456789", 1) + ":" + plain},
		{"epoch-oversized", r.Str("123456789", 1) + r.Str(gen.Digits, r.Range(20, 30)) + ":" + plain},
		{"epoch-oversized", r.Str("23456789", 1) + r.Str(gen.Digits, 19) + ":" + plain},
		{"epoch-oversized", r.Pick([]string{"18446744073709551616", "18446744073709551617", "018446744073709551616", "99999999999999999999", "36893488147419103232"}) + ":" + plain},
		// 2^31 .. 2^64-1 still fits the unsigned Epoch field (dpkg itself stops at INT_MAX): refusing it (as the code at the pinned commit does) and
		// accepting it faithfully are both in line with the statement; accepting it as some OTHER number is not
		{"epoch-top-bit", r.Pick([]string{"9223372036854775808", "9223372036854775809", "18446744073709551615", "09223372036854775808", "1" + r.Str(gen.Digits, 19),
			// ... and the same goes for what lies between dpkg's limit (INT_MAX) and 2^63: "oversized" to dpkg, representable here
			"2147483648", "4294967301", "9223372036854775807", "99999999999"}) + ":" + plain},
		{"nothing-after-colon", r.Str(gen.Digits, r.Range(1, 3)) + ":" + r.Pick([]string{"", " ", "\n"})},
	}
	if len(v.Text) >= 2 {
		k := r.Range(1, len(v.Text)-1)
		out = append(out, [2]string{"embedded-space", v.Text[:k] + r.Pick([]string{" ", "\t", "\n", "\r", "  "}) + v.Text[k:]})
	}
	first := r.Pick([]string{"a", ".", "+", "~", "Z"})
	pre := ""
	if v.HasEpoch || v.V.Epoch > 0 {
		pre = fmt.Sprint(v.V.Epoch) + ":"
	}
	out = append(out, [2]string{"first-char-non-digit", pre + first + body})
	// includes code points whose low byte, or whose UTF-8 bytes, look like ASCII letters or digits to a
	// careless classifier (U+0141 has low byte 'A', U+0161 'a', U+0431 '1', U+FF11 is a full-width digit one)
	bad := r.Pick([]string{"_", "!", "/", "=", ",", "(", "*", "\"", "\x00", "\x7f", "é", "#", "@", "Ł", "š", "с", "б", "１", "Ａ", "ĸ", "\u0130", "\xc1", "\xff"})
	k := r.Range(1, len(v.V.Upstream))
	rev := ""
	if v.V.Revision != "" {
		rev = "-" + v.V.Revision
	}
	out = append(out, [2]string{"bad-char-upstream", pre + v.V.Upstream[:k] + bad + v.V.Upstream[k:] + rev})
	rv := v.V.Revision
	if rv == "" {
		rv = "1"
	}
	k = r.Range(0, len(rv))
	out = append(out, [2]string{"bad-char-revision", pre + v.V.Upstream + "-" + rv[:k] + bad + rv[k:]})
	out = append(out, [2]string{"colon-in-revision", r.Str("0123", 1) + ":" + plain + "-" + rv[:k] + ":" + rv[k:]})
	return out
}

func (p c03) invalid(c *core.C, class, s string) {
	v, err := version.Parse(s)
	c.Cover("invalid:" + class)
	c.Nontrivial()
	if class == "epoch-top-bit" {
		if e, perr := strconv.ParseUint(s[:strings.Index(s, ":")], 10, 64); perr != nil {
			class = "epoch-oversized" // "1"+19 digits may exceed 2^64-1
		} else {
			if err == nil {
				if uint64(v.Epoch) != e {
					c.Failf("Parse(%q) accepted the epoch but reads it as %d", s, v.Epoch)
				}
				p.roundtrip(c, s, "grammar")
				c.Cover("epoch-top-bit:accepted")
			} else {
				c.Cover("epoch-top-bit:refused")
			}
			return
		}
	}
	if err == nil {
		c.Failf("Parse(%q) accepted a string of the invalid class %q as %+v", s, class, v)
	}
	var u version.Version
	if err := u.UnmarshalControl(s); err == nil {
		c.Failf("UnmarshalControl(%q) accepted a string of the invalid class %q as %+v", s, class, u)
	}
	var u2 version.Version
	if err := u2.UnmarshalText([]byte(s)); err == nil {
		c.Failf("UnmarshalText(%q) accepted a string of the invalid class %q as %+v", s, class, u2)
	}
	if js, err := json.Marshal(s); err == nil {
		var u3 version.Version
		if err := json.Unmarshal(js, &u3); err == nil {
			c.Failf("json.Unmarshal(%s) into a Version accepted a string of the invalid class %q as %+v", js, class, u3)
		}
	}
}

func (c03) roundtrip(c *core.C, s, source string) {
	v, err := version.Parse(s)
	if err != nil {
		c.Cover("rt-rejected-from-" + source)
		return
	}
	c.Cover("rt-accepted-from-" + source)
	// the parts of every accepted string, read off the text as the statement says: epoch = the digits
	// before the first colon, revision = the text after the last hyphen, upstream = what is in between
	{
		text := strings.TrimSpace(s)
		rest, epochText := text, ""
		if i := strings.Index(text, ":"); i >= 0 {
			epochText, rest = text[:i], text[i+1:]
		}
		up, rev := rest, ""
		if i := strings.LastIndex(rest, "-"); i >= 0 {
			up, rev = rest[:i], rest[i+1:]
		}
		if v.Version != up || v.Revision != rev {
			c.Failf("Parse(%q) = {epoch %d, upstream %q, revision %q}; read off the text, the upstream part is %q and the revision (after the last hyphen) %q", s, v.Epoch, v.Version, v.Revision, up, rev)
		}
		if epochText != "" && len(epochText) <= 20 && strings.Trim(epochText, "0123456789") == "" {
			if n, err := strconv.ParseUint(epochText, 10, 64); err == nil && uint64(v.Epoch) != n {
				c.Failf("Parse(%q) has epoch %d; the digits before the first colon say %d", s, v.Epoch, n)
			}
		}
		if rev == "" && strings.Contains(rest, "-") {
			c.Cover("shape:trailing-hyphen")
		}
	}
	if v.Epoch > 0 || v.Revision != "" || strings.ContainsAny(v.Version, ":-") {
		c.Nontrivial()
	}
	// String -> Parse
	str := v.String()
	if w, err := version.Parse(str); err != nil || w != v {
		c.Failf("Parse(%q) = %+v renders as String() = %q, which parses to %+v (err %v)", s, v, str, w, err)
	}
	c.Cover("rt:String")
	// MarshalControl -> UnmarshalControl (fresh)
	mc, err := v.MarshalControl()
	var w1 version.Version
	if err != nil {
		c.Failf("MarshalControl of %+v failed: %v", v, err)
	} else if err := w1.UnmarshalControl(mc); err != nil || w1 != v {
		c.Failf("Parse(%q) = %+v: MarshalControl gives %q, UnmarshalControl of that gives %+v (err %v)", s, v, mc, w1, err)
	}
	c.Cover("rt:MarshalControl")
	// MarshalText -> UnmarshalText (fresh)
	vv := v
	mt, err := (&vv).MarshalText()
	var w2 version.Version
	if err != nil {
		c.Failf("MarshalText of %+v failed: %v", v, err)
	} else if err := w2.UnmarshalText(mt); err != nil || w2 != v {
		c.Failf("Parse(%q) = %+v: MarshalText gives %q, UnmarshalText of that gives %+v (err %v)", s, v, mt, w2, err)
	} else {
		// the marshalled text belongs to the caller: marshalling another value afterwards must not change it
		snapshot := string(mt)
		other := version.Version{Epoch: 7, Version: "99.zz+other", Revision: "77~other"}
		if _, err := (&other).MarshalText(); err == nil && string(mt) != snapshot {
			c.Failf("MarshalText of %+v returned %q; after another value was marshalled the same bytes read %q (the result aliases a buffer the library reuses)", v, snapshot, mt)
		}
		c.Cover("rt:MarshalText-result-is-the-callers")
		// encoding.TextUnmarshaler: "UnmarshalText must copy the text if it wishes to retain the text after
		// returning" - decoders hand in a buffer they reuse
		for i := range mt {
			mt[i] = 'X'
		}
		if w2 != v {
			c.Failf("UnmarshalText keeps a reference to the caller's buffer: after the buffer was overwritten the decoded version of %q reads %+v", s, w2)
		}
		c.Cover("rt:UnmarshalText-does-not-retain-buffer")
	}
	c.Cover("rt:MarshalText")
	// encoding/json on *Version
	js, err := json.Marshal(&vv)
	var w3 version.Version
	if err != nil {
		c.Failf("json.Marshal of %+v failed: %v", v, err)
	} else if err := json.Unmarshal(js, &w3); err != nil || w3 != v {
		c.Failf("Parse(%q) = %+v: json.Marshal gives %s, json.Unmarshal of that gives %+v (err %v)", s, v, js, w3, err)
	}
	c.Cover("rt:json")
}

func (p c03) RunCase(t *core.T, kind string, input []byte) {
	switch kind {
	case "volume":
		if vc, ok := volDecode(input); ok {
			t.Case(kind, input, func(c *core.C) { volumeParse(c, t, vc, false) })
		}
	case "grammar":
		parts := strings.SplitN(string(input), "\x1e", 2)
		if len(parts) == 2 {
			t.Case(kind, input, func(c *core.C) { p.grammar(c, parts[0], decVer(parts[1])) })
		}
	case "invalid":
		parts := strings.SplitN(string(input), "\x1e", 2)
		if len(parts) == 2 {
			t.Case(kind, input, func(c *core.C) { p.invalid(c, parts[0], parts[1]) })
		}
	case "roundtrip":
		t.Case(kind, input, func(c *core.C) { p.roundtrip(c, string(input), "replay") })
	}
}
