package props

import (
	"encoding/json"
	"fmt"
	"strings"

	"pault.ag/go/debian/dependency"

	"verif/internal/core"
	"verif/internal/gen"
	"verif/internal/model"
)

// C05 — render/re-parse is a one-step fix-point.
type c05 struct{}

func init() { core.Register(c05{}) }

func (c05) ID() string    { return "C05" }
func (c05) Level() string { return "exploration" }
func (c05) Rule() string {
	return "every string the dependency parser accepts - renderings of generated ASTs with random legal spacing, their single-byte-edit mutants, raw byte strings incl. bytes >= 0x80 and NUL, and a pinned list of odd shapes - is rendered (String and MarshalControl), re-parsed (Parse and UnmarshalControl), compared on a normalised structure (nil == empty, relations without alternatives dropped) and rendered again (must be textually stable). Architecture names: all 1- to 4-part names over {any, all, gnu, linux, amd64, musl, kfreebsd} (2800 names, exhaustive) plus Debian port names and random tokens must satisfy ParseArch(ParseArch(n).String()) == ParseArch(n). Non-trivial = accepted string whose structure has a qualifier, version, architecture list, profile group or substvar, or an architecture name with >= 2 parts; distinct by hash."
}
func (c05) Assumptions() []string {
	return []string{"structural identity is judged on the library's own value types after normalisation"}
}

func (c05) Batches(tier string, seed uint64) []core.Batch {
	var b []core.Batch
	b = append(b, core.Batch{Name: "pinned"})
	b = append(b, spread("grammar", 8, tierN(tier, 5000, 25000))...)
	b = append(b, spread("mutant", 8, tierN(tier, 10000, 50000))...)
	b = append(b, spread("raw", 4, tierN(tier, 10000, 50000))...)
	b = append(b, spread("big", 4, tierN(tier, 2, 8))...)
	b = append(b, spread("corpus", 2, 0)...) // relationship fields of this machine's dpkg database
	b = append(b, spread("arch", 4, 0)...)
	b = append(b, spread("exh", 16, 0)...)
	b = append(b, core.Batch{Name: "volume", N: tierN(tier, 150_000, 3_000_000)}) // one case, one process: see volume.go
	return append(b, conc(tierN(tier, 300, 2000), "grammar", "mutant")...)
}

func (c05) Mandatory(tier string) []string {
	return []string{"accepted:grammar", "accepted:mutant", "accepted:raw", "accepted:exhaustive", "accepted:big", "big:field>=12KiB", "has:substvar", "has:qualifier", "has:version", "has:archlist", "has:negated-archlist",
		"has:profiles", "has:non-ascii", "has:wildcard-arch", "arch:arity1", "arch:arity2", "arch:arity3", "arch:arity4", "arch:wildcard", "arch:real-port", "volume:dependency-fields-parsed-in-one-process", "caller-edits-an-earlier-result"}
}

// normalised, comparable view of a parse result.
type nPoss struct {
	Name     string
	Substvar bool
	Arch     *dependency.Arch
	Op, Ver  string
	HasVer   bool
	Not      bool
	Archs    []dependency.Arch
	Stages   [][]dependency.Stage
}

func normDep(d *dependency.Dependency) string {
	var rels [][]nPoss
	for _, r := range d.Relations {
		var ps []nPoss
		for _, p := range r.Possibilities {
			n := nPoss{Name: p.Name, Substvar: p.Substvar, Arch: p.Arch}
			if p.Version != nil {
				n.HasVer, n.Op, n.Ver = true, p.Version.Operator, p.Version.Number
			}
			if p.Architectures != nil {
				// the negation flag is compared even on an empty list: a value
				// that carries it cannot be told apart from its rendering otherwise
				n.Not = p.Architectures.Not
				if len(p.Architectures.Architectures) > 0 {
					n.Archs = p.Architectures.Architectures
				}
			}
			for _, s := range p.StageSets {
				n.Stages = append(n.Stages, append([]dependency.Stage{}, s.Stages...))
			}
			ps = append(ps, n)
		}
		if len(ps) > 0 {
			rels = append(rels, ps)
		}
	}
	b, _ := json.Marshal(rels)
	return string(b)
}

var c05Pinned = []string{
	"foo", "${shlibs:Depends}", "foo | ${misc:Depends}, bar", "foo:any", "foo:linux-any (>= 1)", "foo [linux-any]", "foo [!any-amd64 !kfreebsd-amd64]",
	"foo [musl-linux-amd64]", "foo [gnu-kfreebsd-amd64 gnu-linux-any any-any-amd64]", "foo <>", "foo <> <a>", "foo []", "a, |, b", " | ", ", ,", "a,,b", "foo (= 1) <a b> <!c>",
	"f\xc3\xa9", "\xe9", "a\xffb (>= 1)", "foo [\xe9]", "foo <\xe9>", "${\xe9}", "a\x00b", "foo:", "foo: (>= 1)", ":any", "(>= 1)", "[amd64]", "foo (>= )", "foo (=)",
	"${}", "${a} (>= 1)", "${a}b", "foo ${a}", "foo:all", "foo [all]", "foo [any]", "foo [all-linux-amd64]", "foo [a-b-c-d]", "foo [-]", "foo [--]", "foo [!]",
	"foo (>= 1) [amd64] <x>,", "foo\n (>= 1)\n ,bar", "foo (>=1)", "foo(>= 1)", "foo[amd64]<x>", "foo:any[amd64]", "foo (>= 1 )", "foo [ amd64 ]", "foo < x >",
}

func (p c05) RunBatch(t *core.T, b core.Batch) {
	if concDispatch(p, t, b) {
		return
	}
	r := t.Rand(b.Name, fmt.Sprint(b.Arg))
	switch b.Name {
	case "volume":
		in := volInput(r.U64(), b.N)
		vc, _ := volDecode(in)
		t.Case("volume", in, func(c *core.C) { volumeDeps(c, t, vc) })
	case "corpus":
		vals := corpusFieldValues("Depends", "Pre-Depends", "Recommends", "Suggests", "Breaks", "Conflicts", "Replaces", "Provides", "Enhances", "Built-Using")
		if len(vals) == 0 {
			t.Cover("corpus:unavailable")
			return
		}
		for i := b.Arg; i < len(vals); i += 2 {
			s := vals[i]
			t.Case("dep", []byte(s), func(c *core.C) {
				if _, err := dependency.Parse(s); err != nil {
					c.Failf("Parse rejects a relationship field of the dpkg database: %v\nfield: %q", err, s)
					return
				}
				p.fix(c, s, "corpus")
			})
		}
		t.CoverN("corpus:dpkg-database-fields", int64(len(vals)/2))
	case "pinned":
		for _, s := range c05Pinned {
			s := s
			t.Case("dep", []byte(s), func(c *core.C) { p.fix(c, s, "pinned") })
		}
	case "grammar":
		for i := 0; i < b.N; i++ {
			d := gen.Dep(r, 4, 3, r.Bool())
			s := d.Render(gen.RandomSpacer(r, nil), r.Chance(1, 8))
			t.Case("dep", []byte(s), func(c *core.C) { p.fix(c, s, "grammar") })
		}
	case "mutant":
		alpha := " \t\n,|()[]<>!${}:=<>~-+.aZ09\xe9\x00\xff"
		for i := 0; i < b.N; i++ {
			d := gen.Dep(r, 3, 2, true)
			bs := []byte(d.Render(model.Canonical, false))
			for k := r.Range(1, 2); k > 0; k-- {
				switch r.Intn(3) {
				case 0:
					bs[r.Intn(len(bs))] = r.PickByte(alpha)
				case 1:
					j := r.Intn(len(bs) + 1)
					bs = append(bs[:j], append([]byte{r.PickByte(alpha)}, bs[j:]...)...)
				default:
					if len(bs) > 1 {
						j := r.Intn(len(bs))
						bs = append(bs[:j], bs[j+1:]...)
					}
				}
			}
			s := string(bs)
			t.Case("dep", []byte(s), func(c *core.C) { p.fix(c, s, "mutant") })
		}
	case "big":
		// long fields in compact spelling: the rendering is longer than the input (" | ", ", "), so anything
		// that depends on the length of the text (buffers, limits) sees the two parses differently
		for i := 0; i < b.N; i++ {
			var sb strings.Builder
			n := r.Pick3(3000, 9000, 14000)
			switch (i + b.Arg) % 4 {
			case 0:
				for k := 0; k < n; k++ {
					sb.WriteString(r.Pick([]string{"p|q,", "a|b|c,", "x,"}))
				}
			case 1: // one relation with thousands of alternatives
				for k := 0; k < n; k++ {
					sb.WriteString("alt" + fmt.Sprint(k%97) + "|")
				}
				sb.WriteString("last")
			case 2: // one architecture list with thousands of entries
				sb.WriteString("foo[")
				for k := 0; k < n; k++ {
					sb.WriteString(r.Pick(gen.ArchNames) + " ")
				}
				sb.WriteString("]")
			default: // versioned relations, compact
				for k := 0; k < n; k++ {
					sb.WriteString("lib" + fmt.Sprint(k%13) + "(>=" + fmt.Sprint(k) + "),")
				}
			}
			s := sb.String()
			t.Cover("big:field>=12KiB")
			t.Case("dep", []byte(s), func(c *core.C) { p.fix(c, s, "big") })
		}
	case "raw":
		alpha := "ab01 ,|()[]<>!${}:=<>~-.\t\n\xe9\xc3\xa9\x00\x80"
		for i := 0; i < b.N; i++ {
			var s string
			if r.Chance(1, 5) {
				s = string(r.Bytes(r.Range(1, 12)))
			} else {
				s = r.Str(alpha, r.Range(1, 14))
			}
			t.Case("dep", []byte(s), func(c *core.C) { p.fix(c, s, "raw") })
		}
	case "exh":
		// every string of length <= 4 (quick) / 5 (thorough) over the syntax alphabet
		const alpha = "a!<>[] ()=1:|,${}\t"
		maxLen := tierN(t.Tier, 4, 5)
		total := 1
		for l := 1; l <= maxLen; l++ {
			n := 1
			for k := 0; k < l; k++ {
				n *= len(alpha)
			}
			total += n
		}
		buf := make([]byte, 0, 8)
		idx := 0
		prefixes := []string{"", "a ", "a <", "a [", "a (", "a:", "${"}
		var rec func(depth int)
		rec = func(depth int) {
			if idx%16 == b.Arg {
				for _, pre := range prefixes {
					s := pre + string(buf)
					t.Case("dep", []byte(s), func(c *core.C) { p.fix(c, s, "exhaustive") })
				}
			}
			idx++
			if depth == maxLen {
				return
			}
			for i := 0; i < len(alpha); i++ {
				buf = append(buf, alpha[i])
				rec(depth + 1)
				buf = buf[:len(buf)-1]
			}
		}
		rec(0)
		_ = total
	case "arch":
		toks := []string{"any", "all", "gnu", "linux", "amd64", "musl", "kfreebsd"}
		var names []string
		var rec func(prefix string, depth int)
		rec = func(prefix string, depth int) {
			for _, tk := range toks {
				n := tk
				if prefix != "" {
					n = prefix + "-" + tk
				}
				names = append(names, n)
				if depth < 4 {
					rec(n, depth+1)
				}
			}
		}
		rec("", 1)
		names = append(names, gen.ArchNames...)
		names = append(names, "armel", "mips64el", "riscv64", "hurd-amd64", "kfreebsd-i386", "uclibc-linux-armel", "musl-any-any", "any-any-any", "gnu-any-any", "any-linux-any", "x32", "")
		rr := t.Rand("archnames")
		for i := 0; i < 200; i++ {
			n := rr.Str("abcxyz0123456789", rr.Range(1, 6))
			for k := rr.Intn(3); k > 0; k-- {
				n += "-" + rr.Pick([]string{"any", rr.Str("abcxyz0123456789", rr.Range(1, 6))})
			}
			names = append(names, n)
		}
		for i := b.Arg; i < len(names); i += 4 {
			n := names[i]
			t.Case("arch", []byte(n), func(c *core.C) { p.arch(c, n) })
		}
	}
}

func (c05) arch(c *core.C, n string) {
	a, err := dependency.ParseArch(n)
	if err != nil {
		c.Cover("arch:rejected")
		return
	}
	s := a.String()
	b, err := dependency.ParseArch(s)
	if err != nil || *a != *b {
		c.Failf("ParseArch(%q) = %+v renders as %q, which parses to %+v (err %v)", n, *a, s, b, err)
	}
	mc, _ := a.MarshalControl()
	var u dependency.Arch
	if err := u.UnmarshalControl(mc); err != nil || u != *a {
		c.Failf("ParseArch(%q) = %+v: MarshalControl gives %q, UnmarshalControl of that into a fresh value gives %+v (err %v)", n, *a, mc, u, err)
	}
	parts := strings.Count(n, "-") + 1
	if parts > 4 {
		parts = 4
	}
	c.Cover(fmt.Sprintf("arch:arity%d", parts))
	if strings.Contains(n, "any") {
		c.Cover("arch:wildcard")
	}
	for _, rp := range gen.ArchNames {
		if rp == n {
			c.Cover("arch:real-port")
		}
	}
	if parts >= 2 {
		c.Nontrivial()
	}
}

func (c05) fix(c *core.C, s, source string) {
	d1, err := dependency.Parse(s)
	if err != nil {
		c.Cover("rejected:" + source)
		return
	}
	c.Cover("accepted:" + source)
	r1 := d1.String()
	d2, err := dependency.Parse(r1)
	if err != nil {
		c.Failf("Parse(%q) renders as %q, which Parse rejects: %v", s, r1, err)
		return
	}
	n1, n2 := normDep(d1), normDep(d2)
	if n1 != n2 {
		c.Failf("Parse(%q) renders as %q, which parses to a different structure:\n first:  %s\n second: %s", s, r1, n1, n2)
		return
	}
	if r2 := d2.String(); r2 != r1 {
		c.Failf("Parse(%q) renders as %q, but re-parsing and rendering again gives %q (no fix-point after one step)", s, r1, r2)
	}
	// control marshalling path
	mc, err := d1.MarshalControl()
	if err != nil {
		c.Failf("MarshalControl failed: %v", err)
	} else {
		var u dependency.Dependency
		if err := u.UnmarshalControl(mc); err != nil {
			c.Failf("Parse(%q): MarshalControl gives %q, which UnmarshalControl rejects: %v", s, mc, err)
		} else if nu := normDep(&u); nu != n1 {
			c.Failf("Parse(%q): MarshalControl gives %q, which UnmarshalControl reads as a different structure:\n first:  %s\n second: %s", s, mc, n1, nu)
		}
		// the value decoded from its own rendering: d.UnmarshalControl(d.String()) must leave d as it was
		self := *d1
		if err := self.UnmarshalControl(mc); err != nil || normDep(&self) != n1 {
			c.Failf("Parse(%q): decoding the value's own rendering %q back into the value gives a different structure (err %v):\n before: %s\n after:  %s", s, mc, err, n1, normDep(&self))
		}
	}
	// the parsed value is the caller's: editing it in place (here: every qualifier and architecture of the second
	// parse is overwritten) must not show in a later parse of the same text
	edited := false
	for _, rel := range d2.Relations {
		for _, p := range rel.Possibilities {
			if p.Arch != nil {
				*p.Arch = dependency.Arch{ABI: "edited", OS: "by", CPU: "caller"}
				edited = true
			}
			if p.Architectures != nil {
				for k := range p.Architectures.Architectures {
					p.Architectures.Architectures[k] = dependency.Arch{ABI: "edited", OS: "by", CPU: "caller"}
					edited = true
				}
			}
		}
	}
	if edited {
		if d3, err := dependency.Parse(r1); err != nil || normDep(d3) != n1 {
			c.Failf("after the caller edited the architectures of an earlier result in place, Parse(%q) gives (err %v)\n %s\nbefore it gave\n %s", r1, err, normDep(d3), n1)
		}
		c.Cover("caller-edits-an-earlier-result")
	}
	nontrivial := false
	for _, rel := range d1.Relations {
		for _, p := range rel.Possibilities {
			if p.Substvar {
				c.Cover("has:substvar")
				nontrivial = true
			}
			if p.Arch != nil {
				c.Cover("has:qualifier")
				nontrivial = true
			}
			if p.Version != nil {
				c.Cover("has:version")
				nontrivial = true
			}
			if p.Architectures != nil && len(p.Architectures.Architectures) > 0 {
				c.Cover("has:archlist")
				nontrivial = true
				if p.Architectures.Not {
					c.Cover("has:negated-archlist")
				}
				for _, a := range p.Architectures.Architectures {
					if a.IsWildcard() {
						c.Cover("has:wildcard-arch")
					}
				}
			}
			if len(p.StageSets) > 0 {
				c.Cover("has:profiles")
				nontrivial = true
			}
			for i := 0; i < len(p.Name); i++ {
				if p.Name[i] >= 0x80 {
					c.Cover("has:non-ascii")
					break
				}
			}
		}
	}
	if nontrivial {
		c.Nontrivial()
	}
}

func (p c05) RunCase(t *core.T, kind string, input []byte) {
	switch kind {
	case "volume":
		if vc, ok := volDecode(input); ok {
			t.Case(kind, input, func(c *core.C) { volumeDeps(c, t, vc) })
		}
	case "dep":
		t.Case(kind, input, func(c *core.C) { p.fix(c, string(input), "replay") })
	case "arch":
		t.Case(kind, input, func(c *core.C) { p.arch(c, string(input)) })
	}
}
