package props

import (
	"bytes"
	"fmt"
	"os"
	"os/exec"
	"path/filepath"
	"strconv"
	"strings"

	"pault.ag/go/debian/version"

	"verif/internal/core"
	"verif/internal/gen"
	"verif/internal/model"
)

// C01 — Compare orders versions exactly as dpkg does (DESIGN §4 C01).
type c01 struct{}

func init() { core.Register(c01{}) }

func (c01) ID() string    { return "C01" }
func (c01) Level() string { return "exploration" }
func (c01) Rule() string {
	return "pairs (a,b) of version structs: bounded-exhaustive over all strings of length<=L (L=2 quick, 3 thorough) on the class-complete alphabet 019Aa~+-.: placed as upstream and as revision; random and single-edit-near pairs from the Policy grammar; pinned statement examples; each judged by an independent run-based reference comparator (math/big), a sample also by real dpkg --compare-versions and Dpkg::Version. Non-trivial = the two versions differ textually and the epoch did not decide; distinct by hash of the pair."
}
func (c01) Assumptions() []string {
	return []string{"dpkg 1.21.22 (--compare-versions, Dpkg::Version) is the dpkg ordering", "reference comparator in internal/model/vercmp.go written from Policy 5.6.12"}
}
func (c01) Exhaustive(tier string) bool { return false }

func (c01) lmax(tier string) int { return tierN(tier, 2, 3) }

func (p c01) Batches(tier string, seed uint64) []core.Batch {
	var b []core.Batch
	b = append(b, core.Batch{Name: "pinned"})
	b = append(b, spread("exh", tierN(tier, 16, 64), 0)...)
	b = append(b, spread("rand", 16, tierN(tier, 8000, 60000))...)
	b = append(b, spread("less", 4, tierN(tier, 200, 1000))...)
	b = append(b, spread("corpus", 8, 0)...) // all pairs of the versions in this machine's dpkg database
	b = append(b, spread("dpkg", 16, tierN(tier, 60, 400))...)
	b = append(b, spread("perl", 4, tierN(tier, 5000, 40000))...)
	b = append(b, core.Batch{Name: "volume", N: tierN(tier, 3_000_000, 30_000_000)}) // one case, one process: see volume.go
	return append(b, conc(tierN(tier, 300, 2000), "rand", "less")...)
}

func (c01) Mandatory(tier string) []string {
	m := []string{"rule:epoch", "rule:equal:identical", "rule:equal:missing-revision-vs-zero", "rule:equal:textually-different",
		"class:number-beyond-uint64", "anyrule:leading-zeros", "anyrule:revision", "anyrule:missing-vs-present", "less-agree", "pinned", "volume:versions-parsed-in-one-process"}
	for _, c := range []string{"tilde-vs-end", "tilde-vs-letter", "tilde-vs-punct", "end-vs-letter", "end-vs-punct", "letter-vs-letter",
		"letter-vs-punct", "punct-vs-punct", "number-longer-wins", "number-first-differing-digit"} {
		m = append(m, "class:"+c)
	}
	return m
}

type ruleCount map[string]int64

func (rc ruleCount) flush(t *core.T) {
	for r, n := range rc {
		t.CoverN("rule:"+r, n)
		cl := r
		if i := strings.LastIndex(cl, ":"); i >= 0 {
			cl = cl[i+1:]
		}
		if strings.Contains(cl, "+leading-zeros") {
			t.CoverN("anyrule:leading-zeros", n)
			cl = strings.Replace(cl, "+leading-zeros", "", 1)
		}
		t.CoverN("class:"+cl, n)
		if strings.HasPrefix(r, "revision:") {
			t.CoverN("anyrule:revision", n)
		}
		if strings.Contains(r, "missing-vs-present") {
			t.CoverN("anyrule:missing-vs-present", n)
		}
	}
}

// judge compares library and reference on one pair; returns reference sign.
func (c01) judge(t *core.T, rc ruleCount, a, b model.Ver, count bool) int {
	want, rule := model.RefCmp(a, b)
	got := model.Sign(version.Compare(libVer(a), libVer(b)))
	rc[rule]++
	if got != want {
		t.Report("pair", encPair(a, b), "Compare(%+v, %+v) has sign %d; reference comparator says %d (decided by %s)", libVer(a), libVer(b), got, want, rule)
	}
	if count && rule != "epoch" && rule != "equal:identical" {
		t.NontrivialKey("pair", encPair(a, b))
	}
	return want
}

var c01Pinned = [][3]string{ // a, b, expected sign of a?b
	{"1.0~rc1", "1.0", "-1"}, {"1.0", "1.0+b1", "-1"}, {"1.0~rc1", "1.0+b1", "-1"},
	{"1.0", "1.0-0", "0"}, {"1.0-0", "1.0", "0"}, {"1.0", "1.0-1", "-1"}, {"1.0-0", "1.0-00", "0"},
	{"9", "10", "-1"}, {"1.01", "1.1", "0"}, {"1.9", "1.10", "-1"}, {"1.09", "1.9", "0"},
	{"18446744073709551615", "18446744073709551616", "-1"}, {"99999999999999999999999", "100000000000000000000000", "-1"},
	{"000000000000000000000000000000001", "1", "0"}, {"1.00000000000000000000000000000002", "1.1", "1"},
	{"1~~", "1~", "-1"}, {"1~", "1", "-1"}, {"1", "1a", "-1"}, {"1a", "1+", "-1"}, {"1Z", "1a", "-1"}, {"1a", "1b", "-1"},
	{"1.", "1+", "1"}, {"1~a", "1~+", "-1"}, {"1~", "1~~a", "1"}, {"1~a", "1~", "1"},
	{"1a1", "1a~", "1"}, {"1a", "1a1", "-1"}, {"1.a", "1.1", "1"}, {"1+1", "1+a", "-1"},
	{"1:0", "9", "1"}, {"0:1", "1", "0"}, {"2:1", "10:0", "-1"},
	{"1.0-1", "1.0-1.1", "-1"}, {"1.0-1~", "1.0-1", "-1"}, {"1.0-a", "1.0-+", "-1"}, {"1.0-2", "1.0-10", "-1"},
	{"1.0-09", "1.0-9", "0"}, {"1-1-1", "1-1-2", "-1"}, {"1:1:1-1", "1:1:1", "1"},
}

// splitText is the harness's own reading of a version string: first colon,
// last hyphen (Policy 5.6.12).
func splitText(s string) model.Ver {
	var v model.Ver
	if i := strings.IndexByte(s, ':'); i >= 0 {
		v.Epoch, _ = strconv.ParseUint(s[:i], 10, 64)
		s = s[i+1:]
	}
	if i := strings.LastIndexByte(s, '-'); i >= 0 {
		v.Revision = s[i+1:]
		s = s[:i]
	}
	v.Upstream = s
	return v
}

func (p c01) RunBatch(t *core.T, b core.Batch) {
	if concDispatch(p, t, b) {
		return
	}
	rc := ruleCount{}
	defer rc.flush(t)
	switch b.Name {
	case "volume":
		in := volInput(t.Rand("volume").U64(), b.N)
		vc, _ := volDecode(in)
		t.Case("volume", in, func(c *core.C) { volumeParse(c, t, vc, true) })
	case "pinned":
		for _, e := range c01Pinned {
			a, bb := splitText(e[0]), splitText(e[1])
			t.Case("pair", encPair(a, bb), func(c *core.C) {
				want := p.judge(t, rc, a, bb, true)
				if fmt.Sprint(want) != e[2] {
					c.Failf("harness self-check: reference comparator gives %d for pinned pair %s ? %s, expected %s", want, e[0], e[1], e[2])
				}
				got := model.Sign(version.Compare(libVer(a), libVer(bb)))
				if fmt.Sprint(got) != e[2] {
					c.Failf("Compare(%s, %s) has sign %d, statement says %s", e[0], e[1], got, e[2])
				}
				c.Cover("pinned")
			})
		}
	case "corpus":
		seen := map[string]bool{}
		var vs []model.Ver
		for _, s := range corpusFieldValues("Version") {
			if !seen[s] {
				seen[s] = true
				vs = append(vs, splitText(s))
			}
		}
		if len(vs) == 0 {
			t.Cover("corpus:unavailable")
			return
		}
		for i := b.Arg; i < len(vs); i += 8 {
			a := vs[i]
			t.Case("corpus-row", []byte(encVer(a)), func(c *core.C) {
				for _, bb := range vs {
					p.judge(t, rc, a, bb, true)
				}
				t.Light(int64(len(vs)) - 1)
				c.Cover("corpus:dpkg-database-version-rows")
			})
		}
	case "exh":
		S := gen.AllStrings(gen.ClassAlphabet, p.lmax(t.Tier))
		nb := tierN(t.Tier, 16, 64)
		for i := b.Arg; i < len(S); i += nb {
			s1 := S[i]
			t.Case("exh-row", []byte(s1), func(c *core.C) {
				for _, s2 := range S {
					p.judge(t, rc, model.Ver{Upstream: s1}, model.Ver{Upstream: s2}, true)
					p.judge(t, rc, model.Ver{Upstream: "1", Revision: s1}, model.Ver{Upstream: "1", Revision: s2}, true)
				}
				t.Light(int64(2*len(S)) - 1)
				c.Cover("exh-rows")
			})
		}
	case "rand":
		r := t.Rand("rand", fmt.Sprint(b.Arg))
		for i := 0; i < b.N; i++ {
			a := gen.Version(r)
			var bb gen.VText
			switch r.Intn(4) {
			case 0:
				bb = gen.Version(r)
			case 1:
				bb = gen.Near(r, gen.Near(r, a))
			default:
				bb = gen.Near(r, a)
			}
			if r.Chance(1, 8) { // same epoch more often, so later rules decide
				bb.V.Epoch = a.V.Epoch
			}
			if r.Chance(1, 10) { // epochs beyond dpkg's INT_MAX (compared as struct values, no text involved)
				a.V.Epoch = r.PickU64(gen.BigEpochs)
				if r.Bool() {
					bb.V.Epoch = r.PickU64(gen.BigEpochs)
				}
			}
			t.Case("pair", encPair(a.V, bb.V), func(c *core.C) {
				p.judge(t, rc, a.V, bb.V, true)
				p.judge(t, rc, bb.V, a.V, false)
			})
		}
	case "less":
		r := t.Rand("less", fmt.Sprint(b.Arg))
		for i := 0; i < b.N; i++ {
			n := r.Range(2, 12)
			vs := make([]model.Ver, n)
			base := gen.Version(r)
			for k := range vs {
				if r.Bool() {
					vs[k] = gen.Near(r, base).V
				} else {
					vs[k] = gen.Version(r).V
				}
			}
			var enc []string
			for _, v := range vs {
				enc = append(enc, encVer(v))
			}
			t.Case("less", []byte(strings.Join(enc, "\x1e")), func(c *core.C) { p.less(c, vs) })
		}
	case "dpkg":
		if !have("dpkg") {
			t.Cover("dpkg-binary-missing")
			return
		}
		r := t.Rand("dpkg", fmt.Sprint(b.Arg))
		for i := 0; i < b.N; i++ {
			a := gen.Version(r)
			bb := gen.Near(r, a)
			if r.Chance(1, 4) {
				bb = gen.Version(r)
			}
			t.Case("dpkg-pair", []byte(a.Text+"\x1e"+bb.Text), func(c *core.C) { p.dpkgPair(c, rc, a.Text, bb.Text) })
		}
	case "perl":
		p.perlBatch(t, rc, b)
	}
}

func (c01) less(c *core.C, vs []model.Ver) {
	s := make(version.Slice, len(vs))
	for i, v := range vs {
		s[i] = libVer(v)
	}
	if s.Len() != len(vs) {
		c.Failf("Slice.Len()=%d for %d elements", s.Len(), len(vs))
	}
	for i := range vs {
		for j := range vs {
			want, _ := model.RefCmp(vs[i], vs[j])
			lij, lji := s.Less(i, j), s.Less(j, i)
			switch {
			case want < 0 && (!lij || lji), want > 0 && (lij || !lji):
				c.Failf("Slice.Less(%d,%d)=%v, Less(%d,%d)=%v on %v / %v; reference order says %d", i, j, lij, j, i, lji, s[i], s[j], want)
			case want == 0 && lij && lji:
				// versions that compare equal may be told apart by a tie-break (Less is the sort adapter, not
				// Compare), but never in both directions
				c.Failf("Slice.Less(%d,%d) and Less(%d,%d) are both true on the equal versions %v / %v", i, j, j, i, s[i], s[j])
			}
			c.Cover("less-agree")
		}
	}
	c.Nontrivial()
}

func dpkgSign(a, b string) (int, bool) {
	run := func(op string) (bool, bool) {
		cmd := exec.Command("dpkg", "--compare-versions", a, op, b)
		var eb bytes.Buffer
		cmd.Stderr = &eb
		err := cmd.Run()
		if eb.Len() > 0 { // warning or error: dpkg does not consider it valid
			return false, false
		}
		if err == nil {
			return true, true
		}
		if ee, ok := err.(*exec.ExitError); ok && ee.ExitCode() == 1 {
			return false, true
		}
		return false, false
	}
	lt, ok := run("lt")
	if !ok {
		return 0, false
	}
	if lt {
		return -1, true
	}
	gt, ok := run("gt")
	if !ok {
		return 0, false
	}
	if gt {
		return 1, true
	}
	eq, ok := run("eq")
	if !ok || !eq {
		return 0, false
	}
	return 0, true
}

func (p c01) dpkgPair(c *core.C, rc ruleCount, ta, tb string) {
	a, b := splitText(ta), splitText(tb)
	ds, ok := dpkgSign(ta, tb)
	if !ok {
		c.Cover("dpkg-rejected-or-failed")
		return
	}
	c.Cover("dpkg-compared")
	want, rule := model.RefCmp(a, b)
	rc[rule]++
	got := model.Sign(version.Compare(libVer(a), libVer(b)))
	if got != ds {
		c.Failf("Compare(%q, %q) has sign %d; dpkg --compare-versions says %d", ta, tb, got, ds)
	}
	if want != ds {
		c.Cover("~inconclusive:the reference comparator disagrees with dpkg on a pair (oracle self-check)")
		c.Cover("oracle-disagrees-with-dpkg")
	}
	if rule != "epoch" && ta != tb {
		c.Nontrivial()
	}
}

const perlCmp = `use Dpkg::Version; $|=1;
while (<STDIN>) { chomp; my ($a,$b)=split /\t/; my $r = eval { version_compare($a,$b) }; print defined($r) ? "$r\n" : "x\n"; }`

func maxDigitRun(s string) int {
	m, cur := 0, 0
	for i := 0; i < len(s); i++ {
		if s[i] >= '0' && s[i] <= '9' {
			cur++
			if cur > m {
				m = cur
			}
		} else {
			cur = 0
		}
	}
	return m
}

func (p c01) perlBatch(t *core.T, rc ruleCount, b core.Batch) {
	if !have("perl") || exec.Command("perl", "-MDpkg::Version", "-e", "1").Run() != nil {
		t.Cover("perl-dpkg-version-missing")
		return
	}
	r := t.Rand("perl", fmt.Sprint(b.Arg))
	var pairs [][2]string
	var in strings.Builder
	for len(pairs) < b.N {
		a := gen.Version(r)
		bb := gen.Near(r, a)
		if r.Chance(1, 4) {
			bb = gen.Version(r)
		}
		// Dpkg::Version compares digit runs as floating-point numbers; keep to exactly representable ones.
		if maxDigitRun(a.Text) > 15 || maxDigitRun(bb.Text) > 15 {
			continue
		}
		pairs = append(pairs, [2]string{a.Text, bb.Text})
		in.WriteString(a.Text + "\t" + bb.Text + "\n")
	}
	script := filepath.Join(t.WorkDir, "cmp.pl")
	os.WriteFile(script, []byte(perlCmp), 0o644)
	t.Case("perl-batch", []byte(fmt.Sprintf("perl/%d", b.Arg)), func(c *core.C) {
		cmd := exec.Command("perl", script)
		cmd.Stdin = strings.NewReader(in.String())
		out, err := cmd.Output()
		if err != nil {
			c.Cover("perl-run-failed")
			return
		}
		lines := strings.Split(strings.TrimSpace(string(out)), "\n")
		if len(lines) != len(pairs) {
			c.Cover("perl-run-failed")
			return
		}
		for i, l := range lines {
			if l == "x" {
				c.Cover("perl-rejected")
				continue
			}
			var ds int
			fmt.Sscanf(l, "%d", &ds)
			a, bb := splitText(pairs[i][0]), splitText(pairs[i][1])
			want, rule := model.RefCmp(a, bb)
			rc[rule]++
			got := model.Sign(version.Compare(libVer(a), libVer(bb)))
			t.Light(1)
			c.Cover("perl-compared")
			if got != model.Sign(ds) {
				t.Report("dpkg-pair", []byte(pairs[i][0]+"\x1e"+pairs[i][1]), "Compare(%q, %q) has sign %d; Dpkg::Version::version_compare says %d", pairs[i][0], pairs[i][1], got, ds)
			}
			if want != model.Sign(ds) {
				c.Cover("~inconclusive:the reference comparator disagrees with dpkg on a pair (oracle self-check)")
				c.Cover("oracle-disagrees-with-dpkg")
			}
			if rule != "epoch" && pairs[i][0] != pairs[i][1] {
				t.NontrivialKey("dpkg-pair", []byte(pairs[i][0]+"\x1e"+pairs[i][1]))
			}
		}
	})
}

func (p c01) RunCase(t *core.T, kind string, input []byte) {
	rc := ruleCount{}
	switch kind {
	case "volume":
		if vc, ok := volDecode(input); ok {
			t.Case(kind, input, func(c *core.C) { volumeParse(c, t, vc, true) })
		}
	case "pair":
		a, b := decPair(input)
		t.Case(kind, input, func(c *core.C) { p.judge(t, rc, a, b, true); p.judge(t, rc, b, a, false) })
	case "exh-row":
		S := gen.AllStrings(gen.ClassAlphabet, p.lmax(t.Tier))
		s1 := string(input)
		t.Case(kind, input, func(c *core.C) {
			for _, s2 := range S {
				p.judge(t, rc, model.Ver{Upstream: s1}, model.Ver{Upstream: s2}, true)
				p.judge(t, rc, model.Ver{Upstream: "1", Revision: s1}, model.Ver{Upstream: "1", Revision: s2}, true)
			}
		})
	case "less":
		var vs []model.Ver
		for _, e := range strings.Split(string(input), "\x1e") {
			vs = append(vs, decVer(e))
		}
		t.Case(kind, input, func(c *core.C) { p.less(c, vs) })
	case "dpkg-pair":
		parts := strings.SplitN(string(input), "\x1e", 2)
		if len(parts) == 2 {
			t.Case(kind, input, func(c *core.C) { p.dpkgPair(c, rc, parts[0], parts[1]) })
		}
	}
}
