// Package fuzz holds the native (coverage-guided) fuzz targets of the
// thorough tier. Every target runs one serialised case of a property
// through that property's own monitors (props.RunCase), so the oracle is
// exactly the one of the deterministic tiers; only the input selection is
// coverage-guided.
package fuzz

import (
	"bytes"
	"os"
	"strings"
	"testing"

	"pault.ag/go/debian/control"

	"verif/internal/core"
	"verif/internal/gen"
	"verif/internal/model"
	_ "verif/props"
)

func runCase(t *testing.T, prop, kind string, input []byte) {
	if len(input) > 65536 {
		return
	}
	p := core.Lookup(prop)
	ct := core.NewT(prop, "thorough", 1)
	ct.Replay = true
	p.RunCase(ct, kind, input)
	if len(ct.Findings) > 0 {
		t.Fatalf("VIOLATION %s/%s: %s", prop, kind, ct.Findings[0].Msg)
	}
}

func seedsVersions(f *testing.F) {
	r := core.NewRand(1, "fuzzseed")
	for i := 0; i < 30; i++ {
		f.Add(gen.Version(r).Text)
	}
	for _, s := range []string{"0:1:2-1", "1-2-", "1.0~rc1", " 1.0 ", "1:", "-1", "a", "1_0"} {
		f.Add(s)
	}
}

func FuzzC03Version(f *testing.F) {
	seedsVersions(f)
	f.Fuzz(func(t *testing.T, s string) { runCase(t, "C03", "roundtrip", []byte(s)) })
}

func FuzzC05Dependency(f *testing.F) {
	r := core.NewRand(2, "fuzzseed")
	for i := 0; i < 40; i++ {
		f.Add(gen.Dep(r, 4, 3, true).Render(gen.RandomSpacer(r, nil), false))
	}
	for _, s := range []string{"${a}", "foo <> [!] (= 1)", "a, |, b", "f\xe9 [\xe9] <\xe9>", "a:b:c", "a (>= 1) (<< 2)"} {
		f.Add(s)
	}
	f.Fuzz(func(t *testing.T, s string) { runCase(t, "C05", "dep", []byte(s)) })
}

func FuzzC05Arch(f *testing.F) {
	for _, s := range append([]string{"", "-", "--", "a-b-c-d", "any-all", "all"}, gen.ArchNames...) {
		f.Add(s)
	}
	f.Fuzz(func(t *testing.T, s string) { runCase(t, "C05", "arch", []byte(s)) })
}

func FuzzC07Paragraphs(f *testing.F) {
	r := core.NewRand(3, "fuzzseed")
	for i := 0; i < 30; i++ {
		f.Add([]byte(gen.Deb822Doc(r).Render()))
	}
	f.Add([]byte(" x\nFoo: a\n"))
	f.Add([]byte("Foo: a\nFoo: b\n"))
	f.Fuzz(func(t *testing.T, b []byte) { runCase(t, "C07", "inv", b) })
}

func FuzzC08Cycle(f *testing.F) {
	r := core.NewRand(4, "fuzzseed")
	for i := 0; i < 30; i++ {
		f.Add([]byte(gen.Deb822Doc(r).Render()))
	}
	f.Fuzz(func(t *testing.T, b []byte) {
		// the class "first logical line empty while the value is not" is excluded
		// (two pinned known findings); it is recognised on what the reader returns
		if pr, err := control.NewParagraphReader(bytes.NewReader(b), nil); err == nil {
			if ps, err := pr.All(); err == nil {
				for _, p := range ps {
					for _, v := range p.Values {
						if strings.HasPrefix(v, "\n") {
							return
						}
					}
				}
			}
		}
		runCase(t, "C08", "cycle", b)
	})
}

func arSeeds(f *testing.F) {
	ms := []model.ArMember{{Name: "debian-binary", Mode: "100644", Data: []byte("2.0\n")}, {Name: "control.tar", Mode: "100644", Data: make([]byte, 1024)}, {Name: "data.tar", Mode: "100644", Data: make([]byte, 1024)}}
	f.Add(model.WriteAr(ms, true))
	f.Add(model.WriteAr(ms[:1], true))
	f.Add([]byte("!<arch>\n"))
	f.Add(model.WriteAr([]model.ArMember{{Name: "x", Mode: "0", Data: []byte("abc")}, {Name: "y/", Blank: true, Data: nil}}, false))
}

func FuzzC15Ar(f *testing.F) {
	arSeeds(f)
	f.Fuzz(func(t *testing.T, b []byte) { runCase(t, "C15", "ar-bytes", b) })
}

func FuzzC15Deb(f *testing.F) {
	arSeeds(f)
	f.Fuzz(func(t *testing.T, b []byte) { runCase(t, "C15", "deb-bytes", b) })
}

func FuzzC18Parsers(f *testing.F) {
	seedsVersions(f)
	r := core.NewRand(5, "fuzzseed")
	for i := 0; i < 20; i++ {
		f.Add(gen.Deb822Doc(r).Render())
		f.Add(gen.Dep(r, 3, 2, true).Render(gen.RandomSpacer(r, nil), false))
	}
	f.Add("pkg (1.0) unstable; urgency=low\n\n  * x\n\n -- A <a@b>  Mon, 02 Jan 2006 15:04:05 -0700\n")
	f.Fuzz(func(t *testing.T, s string) { runCase(t, "C18", "input", []byte(s)) })
}

// steer lets the coverage-guided fuzzer drive a property's structured
// generators: the fuzz input is not the case, it is the sequence of random
// choices the generator makes (core.RunSteered). The oracle is again the
// property's own monitor.
func steer(f *testing.F, prop string) {
	r := core.NewRand(7, "steerseed", prop)
	for i := 0; i < 64; i++ {
		f.Add(r.Bytes(r.Range(4, 600)))
	}
	p := core.Lookup(prop)
	f.Fuzz(func(t *testing.T, data []byte) {
		if len(data) > 8192 {
			return
		}
		ct := core.NewT(prop, "thorough", 1)
		ct.Replay = true
		ct.WorkDir = steerWorkDir(t)
		core.RunSteered(p, ct, data)
		if len(ct.Findings) > 0 {
			t.Fatalf("VIOLATION %s/%s: %s", prop, ct.Findings[0].Kind, ct.Findings[0].Msg)
		}
	})
}

var steerDir string

// steerWorkDir: one scratch directory per fuzz worker process inside the run's work directory (which the
// driver removes); a per-call temporary directory when run by hand.
func steerWorkDir(t *testing.T) string {
	if steerDir != "" {
		return steerDir
	}
	if w := os.Getenv("VERIF_WORK_RUN"); w != "" {
		if d, err := os.MkdirTemp(w, "steer"); err == nil {
			steerDir = d
			return d
		}
	}
	return t.TempDir()
}

func FuzzSteerC01(f *testing.F) { steer(f, "C01") }
func FuzzSteerC02(f *testing.F) { steer(f, "C02") }
func FuzzSteerC03(f *testing.F) { steer(f, "C03") }
func FuzzSteerC04(f *testing.F) { steer(f, "C04") }
func FuzzSteerC05(f *testing.F) { steer(f, "C05") }
func FuzzSteerC06(f *testing.F) { steer(f, "C06") }
func FuzzSteerC07(f *testing.F) { steer(f, "C07") }
func FuzzSteerC08(f *testing.F) { steer(f, "C08") }
func FuzzSteerC09(f *testing.F) { steer(f, "C09") }
func FuzzSteerC10(f *testing.F) { steer(f, "C10") }
func FuzzSteerC12(f *testing.F) { steer(f, "C12") }
func FuzzSteerC13(f *testing.F) { steer(f, "C13") }
func FuzzSteerC15(f *testing.F) { steer(f, "C15") }
func FuzzSteerC17(f *testing.F) { steer(f, "C17") }
func FuzzSteerC19(f *testing.F) { steer(f, "C19") }
